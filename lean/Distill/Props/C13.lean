/-
  C13 — Options do only what they say.
-/
import Distill.Model.Apply
import Distill.Gen.Inventory
namespace Distill.C13
open Distill

/-! ### ties -/

/-- the Options value is used in `Apply` exactly here (source order): the log flags go into
the logger and nowhere else; the URL goes to the extractor, to `Result.URL` and to the
pagination finders; the two pagination switches guard only the pagination block -/
theorem opts_uses_tie : Gen.applyOptsUses =
    ["LogFlags | logger := newDistillerLogger(opts.LogFlags)",
     "OriginalURL | ce := extractor.NewContentExtractor(doc, opts.OriginalURL, logger)",
     "OriginalURL | if opts.OriginalURL != nil",
     "OriginalURL | result.URL = opts.OriginalURL.String()",
     "SkipPagination | if !opts.SkipPagination && opts.OriginalURL != nil",
     "OriginalURL | if !opts.SkipPagination && opts.OriginalURL != nil",
     "PaginationAlgo | if opts.PaginationAlgo == PageNumber",
     "OriginalURL | result.PaginationInfo = finder.FindPagination(doc, opts.OriginalURL)",
     "OriginalURL | result.PaginationInfo = finder.FindPagination(doc, opts.OriginalURL)"] := by rfl

/-- every result field other than URL / PaginationInfo / TimingInfo is assigned once, from
the extractor, before the pagination block -/
theorem result_fields_tie : Gen.applyResultFields =
    ["Node | container", "Text | extractedText", "WordCount | wordCount", "Title | ce.ExtractTitle()",
     "ContentImages | ce.ImageURLs", "MarkupInfo | ce.Parser.MarkupInfo()",
     "URL | opts.OriginalURL.String()",
     "PaginationInfo | finder.FindPagination(doc, opts.OriginalURL)",
     "PaginationInfo | finder.FindPagination(doc, opts.OriginalURL)",
     "TimingInfo | *timingInfo"] := by rfl

/-- every use of the logger in the library is a statement whose value is discarded, a test
that guards only such statements, or the table classifier's log-and-return wrapper -/
theorem logger_sites_tie : Gen.loggerSites = Gen.loggerSitesExpected := by rfl

/-! ### the statements, for every extraction result, every finder and every option set -/

variable {Core : Type}

/-- **Log flags change nothing in the result.** -/
theorem log_irrelevant (core : Option String → Core) (pn pv) (o : Opts) (f : Nat) :
    applyModel core pn pv { o with logFlags := f } = applyModel core pn pv o := by
  rfl

/-- **The pagination switches affect only PaginationInfo.** -/
theorem pagination_only (core : Option String → Core) (pn pv) (o : Opts) (skip' : Bool) (algo' : Nat)
    (r r' : AResult Core)
    (h : applyModel core pn pv o = some r)
    (h' : applyModel core pn pv { o with skip := skip', algo := algo' } = some r') :
    r'.core = r.core ∧ r'.url = r.url := by
  obtain ⟨lf, url, skip, algo⟩ := o
  cases url <;> cases skip <;> cases skip' <;> by_cases ha : algo = 1 <;> by_cases hb : algo' = 1 <;>
    simp_all [applyModel, Gen.applyTail, optAtoms] <;> (obtain ⟨rfl⟩ := h; obtain ⟨rfl⟩ := h'; simp)

/-- **PaginationInfo is empty whenever pagination is skipped or no page URL is given.** -/
theorem pagination_empty (core : Option String → Core) (pn pv) (o : Opts) (r : AResult Core)
    (h : applyModel core pn pv o = some r) (hs : o.skip = true ∨ o.url = none) :
    r.pag = ("", "") := by
  obtain ⟨lf, url, skip, algo⟩ := o
  cases url <;> cases skip <;> by_cases ha : algo = 1 <;>
    simp_all [applyModel, Gen.applyTail, optAtoms] <;> (obtain ⟨rfl⟩ := h; rfl)

/-- otherwise it is the answer of the selected finder -/
theorem pagination_dispatch (core : Option String → Core) (pn pv) (o : Opts) (u : String) (r : AResult Core)
    (h : applyModel core pn pv o = some r) (hs : o.skip = false) (hu : o.url = some u) :
    r.pag = if o.algo = 1 then pn (some u) else pv (some u) := by
  obtain ⟨lf, url, skip, algo⟩ := o
  cases url <;> cases skip <;> by_cases ha : algo = 1 <;>
    simp_all [applyModel, Gen.applyTail, optAtoms] <;> (obtain ⟨rfl⟩ := h; simp)

/-- **Result.URL is the supplied page URL (empty if none).** -/
theorem url_field (core : Option String → Core) (pn pv) (o : Opts) (r : AResult Core)
    (h : applyModel core pn pv o = some r) : r.url = o.url.getD "" := by
  obtain ⟨lf, url, skip, algo⟩ := o
  cases url <;> cases skip <;> by_cases ha : algo = 1 <;>
    simp_all [applyModel, Gen.applyTail, optAtoms] <;> (obtain ⟨rfl⟩ := h; simp)

/-- the model is total on the current source (the tail translated) -/
theorem apply_total (core : Option String → Core) (pn pv) (o : Opts) :
    (applyModel core pn pv o).isSome = true := by
  simp [applyModel, Gen.applyTail]

/-! ### the entry points around `Apply` -/

/-- `ApplyForURL`, `ApplyForFile`, `ApplyForReader` are the statements the model follows: parse /
open / fetch, then delegate; `ApplyForURL` puts the *parsed argument* into a copy of the options -/
theorem entry_points_tie : Gen.entryPointBodies = Gen.entryPointBodiesExpected := by rfl

theorem url_entry_point_shape :
    (Gen.entryPointBodiesExpected.lookup "..ApplyForURL").map (fun l => l.drop 8) =
      some ["urlOpts := Options{}", "if opts != nil { urlOpts = *opts }", "urlOpts.OriginalURL = parsedURL",
            "return ApplyForReader(resp.Body, &urlOpts)"] ∧
    (Gen.entryPointBodiesExpected.lookup "..ApplyForURL").map (fun l => l.take 1) =
      some ["parsedURL, err := nurl.ParseRequestURI(url)"] ∧
    Gen.entryPointBodiesExpected.lookup "..ApplyForReader" =
      some ["doc, err := dom.Parse(r)", "if err != nil { return nil, err }", "return Apply(doc, opts)"] ∧
    (Gen.entryPointBodiesExpected.lookup "..ApplyForFile").map (fun l => l.drop 3) = some ["return ApplyForReader(f, opts)"] := by
  decide +kernel

/-- **With `ApplyForURL`, Result.URL is the address the caller supplied** — whatever the caller's
Options say and wherever the server redirects to. -/
theorem url_entry_point_url (core : Option String → Core) (pn pv) (url : String) (o : Opts) (r : AResult Core)
    (h : applyForURLModel core pn pv url o = some r) : r.url = url := by
  have := url_field core pn pv { o with url := some url } r h
  simpa using this

/-! ### non-vacuity -/
example : (applyModel (fun _ => ()) (fun _ => ("n", "p")) (fun _ => ("N", "P"))
            { url := some "http://e/", algo := 1 }).map (fun r => (r.url, r.pag)) = some ("http://e/", ("n", "p")) := by decide
example : (applyModel (fun _ => ()) (fun _ => ("n", "p")) (fun _ => ("N", "P"))
            { url := some "http://e/", skip := true }).map (fun r => (r.url, r.pag)) = some ("http://e/", ("", "")) := by decide

end Distill.C13
