/-
  C11 — The result is a deterministic function of document and options.
-/
import Distill.Gen.Inventory
import Distill.Gen.Funcs
namespace Distill.C11
open Distill

/-! ### order-independence lemmas, one per kind of map-range site -/

/-- set insertion (labels merged into a block, tag names collected into a set, keys copied
into another map): the resulting *set* does not depend on the iteration order -/
theorem insert_perm {α : Type} [DecidableEq α] (l l' : List α) (h : l.Perm l') (s : List α) (x : α) :
    x ∈ l.foldl (fun acc a => if a ∈ acc then acc else a :: acc) s ↔
    x ∈ l'.foldl (fun acc a => if a ∈ acc then acc else a :: acc) s := by
  have key : ∀ (l : List α) (s : List α), x ∈ l.foldl (fun acc a => if a ∈ acc then acc else a :: acc) s ↔ (x ∈ s ∨ x ∈ l) := by
    intro l
    induction l with
    | nil => intro s; simp
    | cons a r ih =>
      intro s
      simp only [List.foldl_cons, ih, List.mem_cons]
      by_cases ha : a ∈ s
      · simp only [ha, if_true]
        constructor
        · rintro (h | h); exact Or.inl h; exact Or.inr (Or.inr h)
        · rintro (h | h | h); exact Or.inl h; exact Or.inl (h ▸ ha); exact Or.inr h
      · simp only [ha, if_false, List.mem_cons]
        constructor
        · rintro ((h | h) | h); exact Or.inr (Or.inl h); exact Or.inl h; exact Or.inr (Or.inr h)
        · rintro (h | h | h); exact Or.inl (Or.inr h); exact Or.inl (Or.inl h); exact Or.inr h
  rw [key l s, key l' s]
  exact ⟨fun h' => h'.imp id (h.mem_iff.mp), fun h' => h'.imp id (h.mem_iff.mpr)⟩

/-- an early-return-false scan (query maps compared key by key) is a conjunction -/
theorem all_perm {α : Type} (p : α → Bool) (l l' : List α) (h : l.Perm l') : l.all p = l'.all p := by
  induction h with
  | nil => rfl
  | cons x _ ih => simp [ih]
  | swap x y l => simp [Bool.and_left_comm]
  | trans _ _ ih1 ih2 => exact ih1.trans ih2

/-- choosing the longest of the (at most two) consecutive groups: the maximal *length* does not
depend on the order in which the groups are visited -/
theorem max_perm (l l' : List Nat) (h : l.Perm l') : l.foldl max 0 = l'.foldl max 0 := by
  have key : ∀ (l : List Nat) (m : Nat), l.foldl max m = max m (l.foldl max 0) := by
    intro l
    induction l with
    | nil => intro m; simp
    | cons a r ih => intro m; simp only [List.foldl_cons]; rw [ih (max m a), ih (max 0 a)]; omega
  induction h with
  | nil => rfl
  | cons x _ ih => simp only [List.foldl_cons]; rw [key _ (max 0 x), key _ (max 0 x), ih]
  | swap x y l => simp only [List.foldl_cons]; rw [key l (max (max 0 y) x), key l (max (max 0 x) y)]; omega
  | trans _ _ ih1 ih2 => exact ih1.trans ih2

/-! ### the premise: which map ranges exist -/

/-- every `range` over a map in the library is one of the reviewed sites; each is of one of
the three order-independent kinds above, or feeds a value that is sorted / never rendered
(DESIGN §6 C11 has the table).  The range over the page-pattern candidates, which *was* order
dependent, is gone (the candidates are visited in first-seen order). -/
theorem map_ranges_tie : Gen.mapRanges = Gen.mapRangesExpected := by rfl

theorem candidates_not_ranged :
    Gen.mapRanges.all (fun s => s != "internal/pagination/parser.newDetectionStateFromMonotonicNumbers | range pageCandidates") = true := by
  decide +kernel

/-- no state survives a call: nothing writes to a package-level variable -/
theorem no_package_writes : Gen.packageWrites = [] := by rfl

/-- the reader and file entry points only parse / open and delegate to `Apply`, so their result is
`Apply`'s on the tree parsed from the same bytes (regenerated statement lists) -/
theorem entry_points_delegate :
    Gen.entryPointBodies = Gen.entryPointBodiesExpected ∧
    Gen.entryPointBodiesExpected.lookup "..ApplyForReader" =
      some ["doc, err := dom.Parse(r)", "if err != nil { return nil, err }", "return Apply(doc, opts)"] ∧
    (Gen.entryPointBodiesExpected.lookup "..ApplyForFile").map (fun l => l.drop 3) = some ["return ApplyForReader(f, opts)"] := by
  refine ⟨rfl, ?_, ?_⟩ <;> decide +kernel

end Distill.C11
