/-
  C20 — Unlikely-content pruning applies only if enough content remains, else fallback.
-/
import Distill.Props.DomHelpers
import Distill.Model.Candidates
import Distill.Model.Derive
import Distill.Proofs.Convert
import Distill.Proofs.Style
import Distill.Proofs.Prune
import Distill.Model.Extract
namespace Distill.C20
open Distill Distill.Prune

/-! ### ties -/

/-- the threshold and the shape of `ExtractContent`: skip-unlikelies pass first; a second,
default pass exactly when the first pass's word count is below the threshold; then the three
document filters -/
theorem extract_content_tie :
    Gen.documentCharThreshold = some 500 ∧
    Gen.extractContentBody =
      ["start := time.Now()",
       "webDocument := ce.createWebDocumentInfoFromPage(converter.SkipUnlikelies)",
       "wordCount := ce.processDocument(webDocument)",
       "if wordCount < documentCharThreshold { webDocument = ce.createWebDocumentInfoFromPage(converter.Default) wordCount = ce.processDocument(webDocument) }",
       "ce.TimingInfo.DocumentConstructionTime = time.Now().Sub(start)",
       "start = time.Now()",
       "docfilter.NewRelevantElements().Process(webDocument)",
       "docfilter.NewLeadImageFinder(ce.logger).Process(webDocument)",
       "docfilter.NewNestedElementRetainer().Process(webDocument)",
       "ce.TimingInfo.ArticleProcessingTime = time.Now().Sub(start)",
       "ce.ImageURLs = webDocument.GetImageURLs()",
       "return webDocument, wordCount"] := ⟨rfl, rfl⟩

/-- each pass converts a fresh clone of the same document element -/
theorem convert_clone_tie :
    Gen.converterConvertBody = ["clone := domutil.Clone(root, true)", "domutil.RemoveDuplicateAttributes(clone)",
      "domutil.WalkNodes(clone, dc.visitNodeHandler, dc.exitNodeHandler)"] ∧
    Gen.createWebDocumentBody = ["docBuilder := webdoc.NewWebDocumentBuilder(ce.WordCounter, ce.pageURL)",
      "converter.NewDomConverter(flags, docBuilder, ce.pageURL, ce.logger).Convert(ce.documentElement)",
      "webDocument := docBuilder.Build()", "ce.ensureTitleInitialized()", "return webDocument"] := ⟨rfl, rfl⟩

/-! ### the statements -/

/-- **Enough content remains**: the pass that is used equals the default conversion of the
page with the marked subtrees deleted — for all atoms, under the stability hypothesis the
proof forces (pruning must not flip the "empty container" test of a surviving wrapper, nor
turn a `javascript:` anchor into a single-text anchor). -/
theorem two_pass_enough (threshold : Nat) (wc : List BEv → Nat) (A : CAtoms) (root : Node)
    (hs : Stable A [] false root) (hr : rootRemoved A [] root = false)
    (h : threshold ≤ wc (convert { skipUnlikely := true } A [] false root)) :
    extractEvents threshold wc A root =
      convert { skipUnlikely := false } A [] false (prune A [] false root) := by
  have hlt : ¬ wc (convert { skipUnlikely := true } A [] false root) < threshold := by omega
  simp only [extractEvents, hlt, if_false]
  exact convert_skip_eq_prune A [] false root hs hr

/-- **Otherwise the markers are ignored altogether**: the pass that is used is the default
conversion of the page … -/
theorem two_pass_fallback (threshold : Nat) (wc : List BEv → Nat) (A : CAtoms) (root : Node)
    (h : wc (convert { skipUnlikely := true } A [] false root) < threshold) :
    extractEvents threshold wc A root = convert { skipUnlikely := false } A [] false root := by
  simp [extractEvents, h]

/-- … and the default conversion does not look at the markers: the two marker regexps can
answer anything (i.e. class/id values can be renamed to neutral ones) without changing it.
(`role` is read by the unlikely test only, which the default mode never evaluates:
`gateSkip_cfg`.) -/
theorem default_ignores_markers (A : CAtoms) (u m : Nat → Bool) (anc : List String) (hp : Bool) :
    ∀ n : Node, convertNode { skipUnlikely := false } { A with rxUnlikely := u, rxMaybe := m } anc hp n =
      convertNode { skipUnlikely := false } A anc hp n := by
  have key : visitElem { skipUnlikely := false } { A with rxUnlikely := u, rxMaybe := m } =
      visitElem { skipUnlikely := false } A := by
    funext anc hp i t a ks
    unfold visitElem gateSkip
    simp only [Bool.false_and, Bool.or_false]
    rfl
  intro n
  unfold convertNode
  rw [key]
  rfl

/-- the excluded point is real: a marked subtree that is the only content of a wrapper div
makes the two sides differ (the wrapper is walked in the first pass, but is an "empty
container" once the subtree is deleted) -/
theorem stable_needed :
    convertNode { skipUnlikely := true } exA [] false exBad ≠
      convertNode { skipUnlikely := false } exA [] false (prune exA [] false exBad) := by
  decide +kernel


/-! ### which elements are "unlikely": the converter's word lists

`rxUnlikely`, `rxMaybe` and `rxByline` above are atoms.  `Model/Candidates.lean` opens them: each
expression is `(?i)` and an alternation of literal words, read from the regenerated pattern. -/

/-- the three patterns as they stand in the source -/
theorem candidate_regexps_tie :
    Gen.modelledRegexps.lookup "internal/converter.rxUnlikelyCandidates" = some "(?i)-ad-|ai2html|banner|breadcrumbs|combx|comment|community|cover-wrap|disqus|extra|footer|gdpr|header|legends|menu|related|remark|replies|rss|shoutbox|sidebar|skyscraper|social|sponsor|supplemental|ad-break|agegate|pagination|pager|popup|yom-remote" ∧
    Gen.modelledRegexps.lookup "internal/converter.rxOkMaybeItsACandidate" = some "(?i)and|article|body|column|content|main|shadow" ∧
    Gen.modelledRegexps.lookup "internal/converter.rxByline" = some "(?i)byline|author|dateline|writtenby|p-author" := by
  refine ⟨?_, ?_, ?_⟩ <;> decide +kernel

/-- every pattern is an alternation of literal lower-case words (so "matches" is "a word occurs"),
and these are the words -/
theorem candidate_words_read :
    Cand.unlikelyWords.map (·.length) = some 31 ∧
    Cand.maybeWords = some ["and".toList, "article".toList, "body".toList, "column".toList, "content".toList, "main".toList, "shadow".toList] ∧
    Cand.bylineWords = some ["byline".toList, "author".toList, "dateline".toList, "writtenby".toList, "p-author".toList] := by
  refine ⟨?_, ?_, ?_⟩ <;> decide +kernel

/-- `isByline`, `isValidByline`, `isElementWithoutContent` as they stand -/
theorem candidate_bodies_tie : Gen.candidateBodies = Gen.candidateBodiesExpected := by rfl

theorem occurs_spelled (w s : List Char) (h : Style.FoldsTo s w) (a b : List Char) :
    Cand.occurs w (a ++ s ++ b) = true := by
  induction a with
  | nil =>
    have hl := Style.lit_append h b
    simp only [List.nil_append]
    cases hsb : s ++ b with
    | nil => rw [hsb] at hl; simp [Cand.occurs, hl]
    | cons c cs => rw [hsb] at hl; simp [Cand.occurs, hl]
  | cons c cs ih =>
    simp only [List.cons_append, Cand.occurs, Bool.or_eq_true]
    right
    simpa using ih

/-- **A listed word marks the element in every spelling and position**: if the class / id string
contains a word of the list, in any case (and with the letters Unicode folds onto `s` and `k`),
with anything before and after it, the expression matches -/
theorem listed_word_matches (ws : List (List Char)) (w s a b : List Char) (hw : w ∈ ws)
    (h : Style.FoldsTo s w) : Cand.matchAlt ws (a ++ s ++ b) = true := by
  unfold Cand.matchAlt
  exact List.any_eq_true.mpr ⟨w, hw, occurs_spelled w s h a b⟩

/-- … and a string in which no word of the list occurs does not -/
theorem no_word_no_match (ws : List (List Char)) (s : List Char) (h : ∀ w ∈ ws, Cand.occurs w s = false) :
    Cand.matchAlt ws s = false := by
  unfold Cand.matchAlt
  cases hh : ws.any (Cand.occurs · s)
  · rfl
  · obtain ⟨w, hw, ho⟩ := List.any_eq_true.mp hh
    rw [h w hw] at ho; cases ho

/-- **From the written class / id to pruning**: in skip-unlikelies mode an element (not `body`, not
`a`, not inside a table) whose class + " " + id contains a word of the unlikely list — in any case,
anywhere — and no word of the "maybe" list contributes no builder call at all, with the two answers
computed by the model from the attributes (`deriveAtoms`). -/
theorem marked_element_pruned (A : CAtoms) (anc : List String) (hp : Bool)
    (i : Nat) (t : String) (attrs : List Attr) (ks : List Node)
    (hU : A.rxUnlikely i = derivedUnlikely attrs) (hM : A.rxMaybe i = derivedMaybe attrs)
    (uw mw : List (List Char)) (huw : Cand.unlikelyWords = some uw) (hmw : Cand.maybeWords = some mw)
    (w sp a b : List Char) (hw : w ∈ uw) (hs : Style.FoldsTo sp w)
    (hdata : Cand.matchString (getAttr attrs "class") (getAttr attrs "id") = a ++ sp ++ b)
    (hno : ∀ m ∈ mw, Cand.occurs m (a ++ sp ++ b) = false)
    (hctx : anc.contains "table" = false ∧ t ≠ "body" ∧ t ≠ "a") :
    convertNode { skipUnlikely := true } A anc hp (.elem i t attrs ks) = [] := by
  have h1 : derivedUnlikely attrs = true := by
    unfold derivedUnlikely
    rw [huw, hdata]
    exact listed_word_matches uw w sp a b hw hs
  have h2 : derivedMaybe attrs = false := by
    unfold derivedMaybe
    rw [hmw, hdata]
    exact no_word_no_match mw _ hno
  obtain ⟨hc1, hc2, hc3⟩ := hctx
  have hc1' : ¬ "table" ∈ anc := by simpa using hc1
  simp [convertNode_elem, visitElem, gateSkip, hU, hM, h1, h2, hc1', hc2, hc3]

example : Cand.answers "Main SIDEBAR" "x" "" "" "By Jane" = some ⟨true, true, false⟩ := by decide +kernel
example : Cand.answers "story" "p-Author" "" "" "By Jane" = some ⟨false, false, true⟩ := by decide +kernel
example : Cand.answers "story" "" "" "" "" = some ⟨false, false, false⟩ := by decide +kernel

end Distill.C20
