/-
  C06 — With a page URL, every link and media URL in the output is absolute.
  `abs` is the atom `CreateAbsoluteURL(·, pageURL)`; `absSet` rewrites each srcset candidate.
-/
import Distill.Props.AbsURLProps
import Distill.Props.RenderProps
import Distill.Proofs.Render
import Distill.Proofs.Srcset
import Distill.Proofs.SrcsetId
import Distill.Gen.Tables
import Distill.Gen.Funcs
namespace Distill.C06
open Distill

/-- **Everywhere**: in the processed clone every rendering path serialises, each hyperlink
target, each img/source/track/video src, each video poster and each srcset is empty or an image
of the resolver — for every tree and every resolver. -/
theorem abs_everywhere (abs absSet : String → String) (n : Node) :
    (processClone abs absSet n).allUrlsAbs abs absSet := by
  unfold processClone
  exact stripNode_abs abs absSet _ (absNode_abs abs absSet n)

/-- the tags whose `src` is rewritten, from the generated switch -/
theorem src_tags_tie : srcTags = ["img", "source", "track", "video"] := by decide +kernel

/-- the page URL reaches every kind: the builder hands it to Text elements (`flushBlock`), and
each rendering function passes it to the absolutising passes (statement lists as they stand) -/
theorem url_reaches_every_kind :
    Gen.flushBlockBody = Gen.flushBlockBodyExpected ∧
    Gen.textGenerateOutputBody = Gen.textGenerateOutputBodyExpected ∧
    Gen.cloneAndProcessListBody = Gen.cloneAndProcessListBodyExpected ∧
    Gen.makeAllLinksAbsoluteBody = Gen.makeAllLinksAbsoluteBodyExpected ∧
    Gen.imageCloneAndProcessBody = Gen.imageCloneAndProcessBodyExpected ∧
    Gen.videoGenerateOutputBody = Gen.videoGenerateOutputBodyExpected ∧
    Gen.figureGenerateOutputBody = Gen.figureGenerateOutputBodyExpected ∧
    Gen.tableGenerateOutputBody = Gen.tableGenerateOutputBodyExpected := by
  refine ⟨rfl, rfl, rfl, rfl, rfl, rfl, rfl, rfl⟩

theorem passes_present :
    Gen.flushBlockBodyExpected.any (fun s => strContains s "text.PageURL = db.pageURL") = true ∧
    Gen.textGenerateOutputBodyExpected.contains "domutil.MakeAllLinksAbsolute(clonedRoot, t.PageURL)" = true ∧
    Gen.cloneAndProcessListBodyExpected.contains "MakeAllLinksAbsolute(clonedSubTree, pageURL)" = true ∧
    Gen.videoGenerateOutputBodyExpected.contains "domutil.MakeAllSrcSetAbsolute(vNode, v.PageURL)" = true ∧
    Gen.imageCloneAndProcessBodyExpected.contains "domutil.MakeAllSrcSetAbsolute(cloned, i.PageURL)" = true := by
  decide +kernel

/-! ### repeated attributes

The parser keeps every copy of a repeated attribute (`<a href=x href=y>`), while `dom.GetAttribute`
/ `dom.SetAttribute` - and so every absolutising pass - only see the first.  The converter removes
the later copies from its clone before the walk, so all output derives from elements with distinct
attribute names, on which "the first `href`" and "every `href`" coincide. -/

theorem convert_dedups_first :
    Gen.converterConvertBody = ["clone := domutil.Clone(root, true)", "domutil.RemoveDuplicateAttributes(clone)",
      "domutil.WalkNodes(clone, dc.visitNodeHandler, dc.exitNodeHandler)"] := by rfl

/-- after the pass the attribute names of every element of the tree are pairwise distinct -/
theorem dedup_unique (n : Node) : (dedupNode n).uniqueKeys := dedupNode_unique n

/-- what `dom.GetAttribute` reads (the first copy) is the same before and after, so the pass
changes no decision of the converter -/
theorem dedup_reads_unaffected (attrs : List Attr) (k : String) : getAttr (dedupAttrs attrs []) k = getAttr attrs k :=
  dedup_getAttr attrs k

example : dedupAttrs [⟨"href", "a"⟩, ⟨"class", "c"⟩, ⟨"href", "b"⟩, ⟨"HREF", "d"⟩, ⟨"class", "e"⟩] [] =
    [⟨"href", "a"⟩, ⟨"class", "c"⟩, ⟨"HREF", "d"⟩] := by decide


/-! ### srcset values

`absSet` above is the atom "what `makeSrcSetAbsolute` makes of a srcset value".  `Model/Srcset.lean`
opens it: the regular expression `rxSrcsetURL` with Go's leftmost-first matching spelled out, the
URLs `GetSrcSetURLs` returns and the value `makeSrcSetAbsolute` writes (the check runs it against the
real functions on candidate lists and on token soup). -/

/-- the regular expression the model spells out is the one in the source -/
theorem srcset_regexp_tie :
    Gen.modelledRegexps.lookup "internal/domutil.rxSrcsetURL" =
      some "(?i)(\\S+)((?:\\s+[\\d.]+(?:e[+-]?\\d+)?[xwh])*)(\\s*(?:,|$))" := by decide +kernel

/-- **Every candidate is found**: on candidates written `url d1 d2, url, url d` — URLs without white
space that start neither with a comma nor with something that reads as a descriptor, any number of
descriptors `[\d.]+(e[+-]?\d+)?[xwh]` — `GetSrcSetURLs` returns exactly the candidates' URLs, in
order; for every number of candidates and descriptors. -/
theorem srcset_candidates_found (cs : List Srcset.Cand) (h : ∀ c ∈ cs, Srcset.WFCand c) :
    Srcset.urls (Srcset.render cs) = cs.map (·.url) := Srcset.urls_render cs h

/-- **Every candidate is resolved, nothing else changes**: the value `makeSrcSetAbsolute` writes is
the same candidate list with every URL replaced by its resolution (premise: a comma directly after a
URL survives resolution, which the function relies on; measured on the real resolver by the check) -/
theorem srcset_candidates_resolved (abs : List Char → List Char) (cs : List Srcset.Cand)
    (h : ∀ c ∈ cs, Srcset.WFCand c) (hcomma : ∀ c ∈ cs, abs (c.url ++ [',']) = abs c.url ++ [',']) :
    Srcset.rewrite abs (Srcset.render cs) = Srcset.render (cs.map fun c => { c with url := abs c.url }) :=
  Srcset.rewrite_render abs cs h hcomma

/-- … and reading the written value back (ContentImages does) yields the resolved URLs -/
theorem srcset_resolved_read_back (abs : List Char → List Char) (cs : List Srcset.Cand)
    (h : ∀ c ∈ cs, Srcset.WFCand c) (hcomma : ∀ c ∈ cs, abs (c.url ++ [',']) = abs c.url ++ [','])
    (habs : ∀ c ∈ cs, Srcset.WFUrl (abs c.url)) :
    Srcset.urls (Srcset.rewrite abs (Srcset.render cs)) = cs.map (fun c => abs c.url) :=
  Srcset.urls_rewrite_render abs cs h hcomma habs

/-- **Nothing is lost or moved, for EVERY srcset value**: the matches and the characters between them
spell the value, so with a resolver that changes nothing `makeSrcSetAbsolute` writes back the value
it read — whatever it looks like (token soup included).  What the function changes is confined to
the URLs it hands to the resolver. -/
theorem srcset_nothing_lost (s : List Char) : Srcset.rewrite id s = s := Srcset.rewrite_id s

/-- … and every match is a stretch of the value: the pieces `FindAll` yields spell it -/
theorem srcset_pieces_spell_value (s : List Char) :
    (Srcset.pieces (s.length + 1) s).flatMap Srcset.Piece.text = s :=
  Srcset.pieces_concat (s.length + 1) s (Nat.lt_succ_self _)

/-! non-vacuity: a candidate list with two descriptors, an exponent density and a bare URL meets the
premises; and the model on the written-out value -/
example : ∀ c ∈ [(⟨"img/a.jpg".toList, ["400w".toList, "300h".toList]⟩ : Srcset.Cand), ⟨"../b.png".toList, []⟩,
    ⟨"2020/c.gif".toList, ["1e0x".toList]⟩], Srcset.WFCand c := by
  intro c hc
  simp only [List.mem_cons, List.not_mem_nil, or_false] at hc
  rcases hc with rfl | rfl | rfl <;>
    (refine ⟨⟨by decide, by decide, by decide, by decide⟩, ?_⟩; intro d hd;
     simp only [List.mem_cons, List.not_mem_nil, or_false] at hd) <;>
    first
      | (rcases hd with rfl | rfl <;> (unfold Srcset.WFDesc; decide))
      | (rcases hd with rfl; unfold Srcset.WFDesc; decide)
      | cases hd

example : Srcset.urls "img/a.jpg 400w 300h, ../b.png, 2020/c.gif 1e0x".toList =
    ["img/a.jpg".toList, "../b.png".toList, "2020/c.gif".toList] := by decide +kernel

example : String.ofList (Srcset.rewrite (fun u => "http://e/".toList ++ u) "img/a.jpg 400w 300h, b.png,c.gif 2x".toList) =
    "http://e/img/a.jpg 400w 300h, http://e/b.png,c.gif 2x" := by decide +kernel

/-! non-vacuity -/
example : ((processClone (fun s => "http://e/" ++ s) (fun s => "S:" ++ s)
    (.elem 0 "p" [] [.elem 1 "a" [⟨"href", "x"⟩, ⟨"onclick", "y"⟩] [.text 2 "t"],
                     .elem 3 "img" [⟨"src", "i.png"⟩, ⟨"srcset", "a 1x"⟩, ⟨"class", "c"⟩] []])).elems.map Node.attrs) =
    [[], [⟨"href", "http://e/x"⟩], [⟨"src", "http://e/i.png"⟩, ⟨"srcset", "S:a 1x"⟩]] := by
  decide +kernel

end Distill.C06
