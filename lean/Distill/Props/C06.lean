/-
  C06 — With a page URL, every link and media URL in the output is absolute.
  `abs` is the atom `CreateAbsoluteURL(·, pageURL)`; `absSet` rewrites each srcset candidate.
-/
import Distill.Props.RenderProps
import Distill.Proofs.Render
import Distill.Gen.Funcs
namespace Distill.C06
open Distill

/-- **Everywhere**: in the processed clone every rendering path serialises, each hyperlink
target, each img/source/track/video src, each video poster and each srcset is empty or an image
of the resolver — for every tree and every resolver. -/
theorem abs_everywhere (abs absSet : String → String) (n : Node) :
    (processClone abs absSet n).allUrlsAbs abs absSet := by
  unfold processClone
  exact stripNode_abs abs absSet _ (absNode_abs abs absSet n)

/-- the tags whose `src` is rewritten, from the generated switch -/
theorem src_tags_tie : srcTags = ["img", "source", "track", "video"] := by decide +kernel

/-- the page URL reaches every kind: the builder hands it to Text elements (`flushBlock`), and
each rendering function passes it to the absolutising passes (statement lists as they stand) -/
theorem url_reaches_every_kind :
    Gen.flushBlockBody = Gen.flushBlockBodyExpected ∧
    Gen.textGenerateOutputBody = Gen.textGenerateOutputBodyExpected ∧
    Gen.cloneAndProcessListBody = Gen.cloneAndProcessListBodyExpected ∧
    Gen.makeAllLinksAbsoluteBody = Gen.makeAllLinksAbsoluteBodyExpected ∧
    Gen.imageCloneAndProcessBody = Gen.imageCloneAndProcessBodyExpected ∧
    Gen.videoGenerateOutputBody = Gen.videoGenerateOutputBodyExpected ∧
    Gen.figureGenerateOutputBody = Gen.figureGenerateOutputBodyExpected ∧
    Gen.tableGenerateOutputBody = Gen.tableGenerateOutputBodyExpected := by
  refine ⟨rfl, rfl, rfl, rfl, rfl, rfl, rfl, rfl⟩

theorem passes_present :
    Gen.flushBlockBodyExpected.any (fun s => strContains s "text.PageURL = db.pageURL") = true ∧
    Gen.textGenerateOutputBodyExpected.contains "domutil.MakeAllLinksAbsolute(clonedRoot, t.PageURL)" = true ∧
    Gen.cloneAndProcessListBodyExpected.contains "MakeAllLinksAbsolute(clonedSubTree, pageURL)" = true ∧
    Gen.videoGenerateOutputBodyExpected.contains "domutil.MakeAllSrcSetAbsolute(vNode, v.PageURL)" = true ∧
    Gen.imageCloneAndProcessBodyExpected.contains "domutil.MakeAllSrcSetAbsolute(cloned, i.PageURL)" = true := by
  decide +kernel

/-! ### repeated attributes

The parser keeps every copy of a repeated attribute (`<a href=x href=y>`), while `dom.GetAttribute`
/ `dom.SetAttribute` - and so every absolutising pass - only see the first.  The converter removes
the later copies from its clone before the walk, so all output derives from elements with distinct
attribute names, on which "the first `href`" and "every `href`" coincide. -/

theorem convert_dedups_first :
    Gen.converterConvertBody = ["clone := domutil.Clone(root, true)", "domutil.RemoveDuplicateAttributes(clone)",
      "domutil.WalkNodes(clone, dc.visitNodeHandler, dc.exitNodeHandler)"] := by rfl

/-- after the pass the attribute names of every element of the tree are pairwise distinct -/
theorem dedup_unique (n : Node) : (dedupNode n).uniqueKeys := dedupNode_unique n

/-- what `dom.GetAttribute` reads (the first copy) is the same before and after, so the pass
changes no decision of the converter -/
theorem dedup_reads_unaffected (attrs : List Attr) (k : String) : getAttr (dedupAttrs attrs []) k = getAttr attrs k :=
  dedup_getAttr attrs k

example : dedupAttrs [⟨"href", "a"⟩, ⟨"class", "c"⟩, ⟨"href", "b"⟩, ⟨"HREF", "d"⟩, ⟨"class", "e"⟩] [] =
    [⟨"href", "a"⟩, ⟨"class", "c"⟩, ⟨"HREF", "d"⟩] := by decide

/-! non-vacuity -/
example : ((processClone (fun s => "http://e/" ++ s) (fun s => "S:" ++ s)
    (.elem 0 "p" [] [.elem 1 "a" [⟨"href", "x"⟩, ⟨"onclick", "y"⟩] [.text 2 "t"],
                     .elem 3 "img" [⟨"src", "i.png"⟩, ⟨"srcset", "a 1x"⟩, ⟨"class", "c"⟩] []])).elems.map Node.attrs) =
    [[], [⟨"href", "http://e/x"⟩], [⟨"src", "http://e/i.png"⟩, ⟨"srcset", "S:a 1x"⟩]] := by
  decide +kernel

end Distill.C06
