/-
  Property theorems about the article extractor (the fourteen text-block filters), shared by
  C01, C02, C03, C09 and C15.  The model is `Model/Filters.lean`; it is executed against the real
  `ArticleExtractor.Extract` after every stage on every generated page (stage `filters`).
-/
import Distill.Proofs.Filters
import Distill.Gen.Funcs
namespace Distill.FltProps
open Distill.Flt

/-- **C01 — the article extractor is total.**  For every list of initial blocks and every DOM
answer per block, no filter fails: in particular none of the index expressions of
`SimilarSiblingContent.Process` (`good[goodEnd]`, `bad[j]`, `bad[badBegin]`, `textBlocks[b]`,
`canonicalReps[i]`, …), which the model keeps partial, is ever out of range. -/
theorem filters_total (A : Atoms) (init : List TB) (hA : A.length = init.length) :
    (extract A init).isSome = true := by
  obtain ⟨final, h, _⟩ := extract_spec A init hA
  simp [h]

/-- what `extract` returns, when it returns -/
theorem extract_keeps (A : Atoms) (init final : List TB) (hA : A.length = init.length)
    (h : extract A init = some final) :
    KeepsLe init final ∧ KeepsLe (titleMatch A (terminating A init).1).1 final := by
  obtain ⟨final', h', k⟩ := extract_spec A init hA
  rw [h] at h'
  cases h'
  exact k

theorem contentMembers_sublist (l : List TB) : (contentMembers l).Sublist (allMembers l) := by
  unfold contentMembers allMembers
  induction l with
  | nil => simp
  | cons a l ih =>
    simp only [List.filter]
    split
    · simp only [List.flatMap_cons]; exact List.Sublist.append (List.Sublist.refl _) ih
    · simp only [List.flatMap_cons]; exact List.Sublist.trans ih (List.sublist_append_right _ _)

/-- **C02 — the filters neither duplicate nor invent a Text element.**  If the initial blocks
hold every Text element at most once, the Text elements flagged content by `ApplyToModel` are
distinct, and each of them belongs to an initial block. -/
theorem filters_no_duplication (A : Atoms) (init final : List TB) (hA : A.length = init.length)
    (h : extract A init = some final) (hn : (allMembers init).Nodup) :
    (contentMembers final).Nodup ∧ ∀ i ∈ contentMembers final, i ∈ allMembers init := by
  have k := (extract_keeps A init final hA h).1
  have hcnt : ∀ x, (contentMembers final).count x ≤ (allMembers init).count x := fun x =>
    Nat.le_trans ((contentMembers_sublist final).count_le x) (k.2 x)
  refine ⟨List.nodup_iff_count.mpr (fun x => Nat.le_trans (hcnt x) (List.nodup_iff_count.mp hn x)), fun i hi => ?_⟩
  have : 0 < (allMembers init).count i := Nat.lt_of_lt_of_le (List.count_pos_iff.mpr hi) (hcnt i)
  exact List.count_pos_iff.mp this

theorem mem_contentMembers {l : List TB} {i : Nat} :
    i ∈ contentMembers l ↔ ∃ f ∈ l, f.content = true ∧ i ∈ f.members := by
  unfold contentMembers
  simp only [List.mem_flatMap, List.mem_filter]
  constructor
  · rintro ⟨f, ⟨hf, hc⟩, hi⟩; exact ⟨f, hf, hc, hi⟩
  · rintro ⟨f, hf, hc, hi⟩; exact ⟨f, ⟨hf, hc⟩, hi⟩

theorem mem_titleMembers {l : List TB} {i : Nat} :
    i ∈ titleMembers l ↔ ∃ f ∈ l, (f.content && f.labels.title) = true ∧ i ∈ f.members := by
  unfold titleMembers
  simp only [List.mem_flatMap, List.mem_filter]
  constructor
  · rintro ⟨f, ⟨hf, hc⟩, hi⟩; exact ⟨f, hf, hc, hi⟩
  · rintro ⟨f, hf, hc, hi⟩; exact ⟨f, ⟨hf, hc⟩, hi⟩

/-- **C03 — the filters treat an initial block as a whole.**  Whatever the fourteen filters do
(flag, merge — also across a block that stays, as BlockProximityFusion can —, drop), two Text
elements of one initial block end up with the same content flag and the same TITLE label. -/
theorem initial_block_all_or_nothing (A : Atoms) (init final : List TB) (hA : A.length = init.length)
    (h : extract A init = some final) (hn : (allMembers init).Nodup)
    (b0 : TB) (hb0 : b0 ∈ init) (i j : Nat) (hi : i ∈ b0.members) (hj : j ∈ b0.members) :
    (i ∈ contentMembers final ↔ j ∈ contentMembers final) ∧
    (i ∈ titleMembers final ↔ j ∈ titleMembers final) := by
  have k := (extract_keeps A init final hA h).1
  have hw := k.1 _ (closed_whole init) (whole_init init hn)
  have key : ∀ f ∈ final, ∀ a b, a ∈ b0.members → b ∈ b0.members → a ∈ f.members → b ∈ f.members := by
    intro f hf a b ha hb hm
    rcases hw f hf b0 hb0 with hall | hnone
    · exact hall b hb
    · exact absurd hm (hnone a ha)
  constructor
  · rw [mem_contentMembers, mem_contentMembers]
    constructor
    · rintro ⟨f, hf, hc, hm⟩; exact ⟨f, hf, hc, key f hf i j hi hj hm⟩
    · rintro ⟨f, hf, hc, hm⟩; exact ⟨f, hf, hc, key f hf j i hj hi hm⟩
  · rw [mem_titleMembers, mem_titleMembers]
    constructor
    · rintro ⟨f, hf, hc, hm⟩; exact ⟨f, hf, hc, key f hf i j hi hj hm⟩
    · rintro ⟨f, hf, hc, hm⟩; exact ⟨f, hf, hc, key f hf j i hj hi hm⟩

/-- **C09 — WordCount is the number of words of the Text elements flagged content.**  If every
initial block's word count is the sum over its Text elements (`NewTextBlock`), then
`CountWordsInContent` of the final blocks is the sum of `NumWords` over exactly the Text elements
`ApplyToModel` flags. -/
theorem word_count_is_sum (w : Nat → Nat) (A : Atoms) (init final : List TB) (hA : A.length = init.length)
    (h : extract A init = some final) (h0 : All (Wd w) init) :
    countWordsInContent final = ((contentMembers final).map w).sum := by
  have k := (extract_keeps A init final hA h).1
  exact countWords_eq w final (k.1 _ (closed_words w) h0)

/-- **C15 — a block that matches the title keeps the TITLE label through every filter.**  If the
initial block holding Text element `i0` is title-matched (DocumentTitleMatch), then whenever
`i0` is flagged content it is also given TITLE (and `Text.GenerateOutput` emits nothing for it). -/
theorem title_block_labelled (A : Atoms) (init final : List TB) (hA : A.length = init.length)
    (h : extract A init = some final) (i0 : Nat)
    (hm : ∀ f ∈ init, i0 ∈ f.members → (A.at f.first).titleMatch = true)
    (hc : i0 ∈ contentMembers final) : i0 ∈ titleMembers final := by
  have k := (extract_keeps A init final hA h).2
  have h2 : All (Tl i0) (titleMatch A (terminating A init).1).1 := by
    intro f' hf'
    unfold titleMatch terminating at hf'
    simp only [List.map_map, List.mem_map] at hf'
    obtain ⟨f, hf, rfl⟩ := hf'
    intro hi
    have hfi : i0 ∈ f.members := by
      simp only [Function.comp] at hi
      by_cases h1 : (A.at f.first).term = true <;> by_cases h2 : (A.at f.first).titleMatch = true <;> simp [h1, h2] at hi <;> exact hi
    have ht := hm f hf hfi
    simp only [Function.comp]
    by_cases h1 : (A.at f.first).term = true <;> simp [h1, ht]
  have hall := k.1 _ (closed_title i0) h2
  rw [mem_contentMembers] at hc
  obtain ⟨f, hf, hcf, hmf⟩ := hc
  rw [mem_titleMembers]
  exact ⟨f, hf, by simp [hcf, hall f hf hmf], hmf⟩

/-- the source text of `ArticleExtractor.Extract`, of every filter's `Process` and helpers, of
`NewTextBlock`, `MergeNext`, `CountWordsInContent`, `ApplyToModel` and `CreateTextDocument`
(regenerated on every run) is the text the model was written against -/
theorem source_tie : Gen.articleExtractorBodies = Gen.articleExtractorBodiesExpected := by rfl

/-! non-vacuity: a concrete run — a heading that matches the title and keeps TITLE, two paragraphs
that stay content, a short link block that is dropped -/
def exInit : List TB :=
  [ { members := [0], numWords := 5, numAnchor := 0, tagLevel := 2, offStart := 0, offEnd := 0, labels := { heading := true, h1 := true }, content := false, first := 0 },
    { members := [1, 2], numWords := 60, numAnchor := 2, tagLevel := 2, offStart := 1, offEnd := 1, labels := {}, content := false, first := 1 },
    { members := [3], numWords := 45, numAnchor := 0, tagLevel := 2, offStart := 2, offEnd := 2, labels := {}, content := false, first := 2 },
    { members := [4], numWords := 3, numAnchor := 3, tagLevel := 3, offStart := 3, offEnd := 3, labels := { li := true }, content := false, first := 3 } ]
def exAtoms : Atoms :=
  [ { repParent := 1, repKind := "e:h1", gpFirst := 1, gpLast := 1, titleMatch := true },
    { repParent := 1, repKind := "e:p", gpFirst := 1, gpLast := 1 },
    { repParent := 1, repKind := "e:p", gpFirst := 1, gpLast := 1 },
    { repParent := 2, repKind := "e:li", gpFirst := 3, gpLast := 3 } ]

example : (extract exAtoms exInit).map (fun l => l.map (fun b => (b.members, b.content, b.labels.title))) =
    some [([0], true, true), ([1, 2], true, false), ([3], true, false)] := by decide
example : exAtoms.length = exInit.length ∧ (allMembers exInit).Nodup := by decide

end Distill.FltProps
