/-
  C15 — Title comes from the page, is never invented, and is not repeated in content.
-/
import Distill.Gen.Tables
import Distill.Props.RenderProps
import Distill.Model.Title
import Distill.Props.FiltersProps
import Distill.Gen.Funcs
namespace Distill.C15
open Distill

/-- whitespace normalisation the code applies to its candidate -/
def norm (s : List Char) : List Char := fieldsJoin (trimSpace s)

/-- **Markup title first.** -/
theorem markup_first (markup : List Char) (i : TitleIn) (h : markup ≠ []) : resultTitle markup i = markup := by
  unfold resultTitle
  cases markup with
  | nil => exact absurd rfl h
  | cons c cs => simp

theorem removeFinalPart_take (s : List Char) : ∃ n, removeFinalPart s = s.take n := by
  unfold removeFinalPart
  cases lastSepSpace s with
  | none => exact ⟨s.length, by simp⟩
  | some n => exact ⟨n, rfl⟩

theorem removeFirstPart_drop (s : List Char) : ∃ n, removeFirstPart s = s.drop n := by
  unfold removeFirstPart
  cases firstSep s with
  | none => exact ⟨0, by simp⟩
  | some n => exact ⟨n + 1, rfl⟩

theorem afterLastColon_drop (s : List Char) : ∃ n, afterLastColon s = s.drop n := by
  unfold afterLastColon
  cases lastIdx (· == ':') s with
  | none => exact ⟨0, by simp⟩
  | some n => exact ⟨n + 1, rfl⟩

theorem afterFirstColon_drop (s : List Char) : ∃ n, afterFirstColon s = s.drop n := by
  unfold afterFirstColon
  cases firstIdx (· == ':') s with
  | none => exact ⟨0, by simp⟩
  | some n => exact ⟨n + 1, rfl⟩

/-- the candidate of stage 1 is the original title, a prefix of it, a suffix of it, or the
text of the first h1 -/
theorem stage1_pieces (i : TitleIn) :
    (∃ n, (titleStage1 i).1 = i.orig.take n) ∨ (∃ n, (titleStage1 i).1 = i.orig.drop n) ∨
    (∃ h, i.h1 = some h ∧ (titleStage1 i).1 = h) := by
  have whole : ∃ n, i.orig = i.orig.take n := ⟨i.orig.length, by simp⟩
  unfold titleStage1
  split
  · simp only []
    split
    · right; left; exact removeFirstPart_drop i.orig
    · left; exact removeFinalPart_take i.orig
  · split
    · split
      · left; exact whole
      · split
        · right; left; exact afterFirstColon_drop i.orig
        · split
          · left; exact whole
          · right; left; exact afterLastColon_drop i.orig
    · split
      · cases hh : i.h1 with
        | none => left; simpa [hh] using whole
        | some h => right; right; exact ⟨h, rfl, by simp [hh]⟩
      · left; exact whole

/-- **Never invented.**  The document title is the original `<title>` text, or the
whitespace-normalised form of a contiguous part of it (a prefix or a suffix), or of the text
of the first `<h1>` — for every title string, heading and word-count outcome. -/
theorem never_invented (i : TitleIn) :
    documentTitle i = i.orig ∨
    (∃ piece, piece <:+: i.orig ∧ documentTitle i = norm piece) ∨
    (∃ h, i.h1 = some h ∧ documentTitle i = norm h) := by
  unfold documentTitle
  simp only []
  split
  · left; rfl
  · rcases stage1_pieces i with ⟨n, h⟩ | ⟨n, h⟩ | ⟨hh, h1, h⟩
    · right; left; exact ⟨i.orig.take n, List.take_prefix n i.orig |>.isInfix, by rw [h]; rfl⟩
    · right; left; exact ⟨i.orig.drop n, List.drop_suffix n i.orig |>.isInfix, by rw [h]; rfl⟩
    · right; right; exact ⟨hh, h1, by rw [h]; rfl⟩

/-- **Exactly the title when it is plain**: 15 to 150 characters, no " sep " pattern and no
": " — the result is the `<title>` text itself or its whitespace-normalised form. -/
theorem exact_when_plain (i : TitleIn)
    (hs : hasSepIn titleSeps i.orig = false) (hc : hasColonSpace i.orig = false)
    (hlo : 15 ≤ i.orig.length) (hhi : i.orig.length ≤ 150) :
    documentTitle i = i.orig ∨ documentTitle i = norm i.orig := by
  have h1 : titleStage1 i = (i.orig, false) := by
    unfold titleStage1
    have : ¬ (i.orig.length > 150 ∨ i.orig.length < 15) := by omega
    simp [hs, hc, this]
  unfold documentTitle
  rw [h1]
  simp only []
  split
  · left; rfl
  · right; rfl

/-! ### the title block is not emitted again -/

/-- ties: the normalised title itself is registered as a potential title (the repaired line),
a block whose normalised text is a potential title gets the TITLE label, every Text of a
labelled content block gets the label (`ApplyToModel`), and a Text carrying it renders as the
empty string in both views -/
theorem title_suppression_tie :
    Gen.processPotentialTitleBody = Gen.processPotentialTitleBodyExpected ∧
    Gen.processPotentialTitleBodyExpected.contains "f.potentialTitles[title] = struct{}{}" = true ∧
    Gen.documentTitleMatchProcessBody = Gen.documentTitleMatchProcessBodyExpected ∧
    Gen.textGenerateOutputBodyExpected.head? = some "if t.HasLabel(label.Title) { return \"\" }" ∧
    Gen.applyToModelBody = ["if !tb.isContent { return }",
      "for _, wt := range tb.TextElements { wt.SetIsContent(true) if tb.HasLabel(label.Title) { wt.AddLabel(label.Title) } }"] := by
  refine ⟨rfl, by decide +kernel, rfl, by decide +kernel, rfl⟩

/-- the set of potential titles, abstractly: the normalised title plus whatever parts the
splitting heuristics add (an atom) -/
def potentialTitles (normTitle : String) (parts : List String) : List String := normTitle :: parts

/-- a block whose normalised text equals the normalised title is labelled, whatever the
heuristics add -/
theorem title_block_labelled (normTitle blockNorm : String) (parts : List String) (h : blockNorm = normTitle) :
    (potentialTitles normTitle parts).contains blockNorm = true := by
  subst h; simp [potentialTitles]

/-- `getDocumentTitle`, `ExtractTitle`, `ensureTitleInitialized` as they stand, and the five regular
expressions `Model/Title.lean` spells out (`hasSepIn`, `removeFinalPart`, `removeFirstPart`, …) -/
theorem title_heuristic_tie :
    Gen.titleBodies = Gen.titleBodiesExpected ∧
    Gen.modelledRegexps.lookup "internal/extractor.rxTitleSeparator" = some "(?i) [\\|\\-\\\\/>»] " ∧
    Gen.modelledRegexps.lookup "internal/extractor.rxTitleHierarchySep" = some "(?i) [\\\\/>»] " ∧
    Gen.modelledRegexps.lookup "internal/extractor.rxTitleRemoveFinalPart" = some "(?i)(.*)[\\|\\-\\\\/>»] .*" ∧
    Gen.modelledRegexps.lookup "internal/extractor.rxTitleRemove1stPart" = some "(?i)[^\\|\\-\\\\/>»]*[\\|\\-\\\\/>»](.*)" ∧
    Gen.modelledRegexps.lookup "internal/extractor.rxTitleAnySeparator" = some "(?i)[\\|\\-\\\\/>»]+" := by
  refine ⟨rfl, ?_, ?_, ?_, ?_, ?_⟩ <;> decide +kernel

/-! non-vacuity -/
example : documentTitle { orig := "An ordinary page title".toList, h1 := none, headingMatch := false } =
    "An ordinary page title".toList := by decide
example : documentTitle { orig := "Alpha Beta Gamma Delta - Section - Site".toList, h1 := none, headingMatch := false } =
    "Alpha Beta Gamma Delta - Section".toList := by decide

end Distill.C15
