/-
  C10 — Caller-owned arguments are never modified.
-/
import Distill.Props.DomHelpers
import Distill.Model.Heap
import Distill.Gen.Inventory
import Distill.Gen.Funcs
namespace Distill.C10
open Distill

theorem hstep_frame {Cell : Type} (base : Nat) (h : Heap Cell) (op : HOp Cell)
    (hb : base ≤ h.length) (hw : match op with | .write a _ => base ≤ a | _ => True) :
    base ≤ (hstep h op).length ∧ ∀ a, a < base → (hstep h op)[a]? = h[a]? := by
  cases op with
  | alloc c =>
    refine ⟨by simp [hstep]; omega, fun a ha => ?_⟩
    simp only [hstep]
    rw [List.getElem?_append_left (by omega)]
  | write w c =>
    refine ⟨by simp [hstep]; exact hb, fun a ha => ?_⟩
    simp only [hstep]
    rw [List.getElem?_set_ne (by simp at hw; omega)]
  | read a => exact ⟨hb, fun _ _ => rfl⟩

/-- **Frame.** If every write of a call targets a cell allocated during the call (a clone, a
freshly created element, a copied URL/Options value), every caller-owned cell is the same
after the call as before — for every heap and every operation sequence. -/
theorem frame {Cell : Type} (h : Heap Cell) (ops : List (HOp Cell)) (hw : WritesFresh h.length ops) :
    ∀ a, a < h.length → (hrun h ops)[a]? = h[a]? := by
  have H : ∀ (ops : List (HOp Cell)) (base : Nat) (g : Heap Cell), base ≤ g.length → WritesFresh base ops →
      ∀ a, a < base → (hrun g ops)[a]? = g[a]? := by
    intro ops
    induction ops with
    | nil => intro base g _ _ a _; rfl
    | cons op rest ih =>
      intro base g hb hw a ha
      have hop := hw op List.mem_cons_self
      obtain ⟨hb', hsame⟩ := hstep_frame base g op hb hop
      have := ih base (hstep g op) hb' (fun o ho => hw o (List.mem_cons_of_mem _ ho)) a ha
      simp only [hrun, List.foldl_cons] at this ⊢
      rw [this, hsame a ha]
  exact H ops h.length h (Nat.le_refl _) hw

/-- **The premise, from the source**: every site of the library that writes to a node, a URL
or an Options value, with the local provenance of its target (parameter, clone, freshly
created, copy), is one of the reviewed sites (go/extract/expect/mutationSites.json).  The
writes whose target is a parameter are in functions that are only ever handed nodes of the
converter's private clone or of a processed clone (see DESIGN §6 C10). -/
theorem mutation_sites_tie : Gen.mutationSites = Gen.mutationSitesExpected := by rfl

/-- the converter works on a deep clone of the document element -/
theorem convert_clones_first :
    Gen.converterConvertBody = ["clone := domutil.Clone(root, true)", "domutil.RemoveDuplicateAttributes(clone)",
      "domutil.WalkNodes(clone, dc.visitNodeHandler, dc.exitNodeHandler)"] := by rfl

/-- `ApplyForURL` assigns the fetched URL to a copy of the options -/
theorem apply_for_url_copies :
    Gen.mutationSitesExpected.contains "distiller.ApplyForURL | options-field OriginalURL | urlOpts  [urlOpts := Options{}]" = true := by
  decide +kernel

/-! non-vacuity -/
example : hrun [1, 2, 3] [.alloc 9, .write 3 7, .read 0, .alloc 5, .write 4 6] = [1, 2, 3, 7, 6] := by decide
example : WritesFresh 3 ([.alloc 9, .write 3 7, .read 0] : List (HOp Nat)) := by
  intro op hop; simp at hop; rcases hop with h | h | h <;> subst h <;> simp

end Distill.C10
