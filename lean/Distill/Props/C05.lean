/-
  C05 — Distilled HTML is inert: no scripts, styles, handlers or id/class attributes.
-/
import Distill.Props.DomHelpers
import Distill.Props.RenderProps
import Distill.Proofs.Render
import Distill.Gen.Funcs
namespace Distill.C05
open Distill

/-- **The allow list is safe** (kernel evaluation over the generated table): an attribute that
survives stripping is never an event handler, id, class, style or data-* attribute. -/
theorem allowed_safe : Gen.allowedAttributes.all (fun k => stripAlwaysKeys.contains k || safeKey k) = true :=
  Distill.allowed_safe

/-- id, class and style are in the generated "always strip" clause -/
theorem strip_identifying : ["id", "class", "style"].all stripAlwaysKeys.contains = true := by
  decide +kernel

/-- **Stripping reaches every element**: after `StripAttributes` every attribute of the root and
of every descendant element is safe — for every tree. -/
theorem strip_all_nodes (n : Node) : (stripNode n).allAttrsSafe = true := stripNode_safe n

/-- and it changes nothing else (same text nodes in the same order) -/
theorem strip_keeps_text (n : Node) : (stripNode n).textIds = n.textIds := stripNode_textIds n

/-- **Every kind strips**: each rendering path ends by stripping the root it serialises —
Text and cloned tables/captions (`CloneAndProcessList`), images, figures, videos, and the moved
embed element (after its script/style children are removed); tags are bare names.  These are the
statement lists of the rendering functions as they stand in the source. -/
theorem every_kind_strips :
    Gen.textGenerateOutputBody = Gen.textGenerateOutputBodyExpected ∧
    Gen.cloneAndProcessListBody = Gen.cloneAndProcessListBodyExpected ∧
    Gen.cloneAndProcessTreeBody = Gen.cloneAndProcessTreeBodyExpected ∧
    Gen.tableGenerateOutputBody = Gen.tableGenerateOutputBodyExpected ∧
    Gen.figureGenerateOutputBody = Gen.figureGenerateOutputBodyExpected ∧
    Gen.imageCloneAndProcessBody = Gen.imageCloneAndProcessBodyExpected ∧
    Gen.videoGenerateOutputBody = Gen.videoGenerateOutputBodyExpected ∧
    Gen.embedGenerateOutputBody = Gen.embedGenerateOutputBodyExpected ∧
    Gen.tagGenerateOutputBody = Gen.tagGenerateOutputBodyExpected := by
  refine ⟨rfl, rfl, rfl, rfl, rfl, rfl, rfl, rfl, rfl⟩

/-- each of those expectations contains the strip call as (one of) its last statements -/
theorem strip_call_present :
    Gen.textGenerateOutputBodyExpected.contains "domutil.StripAttributes(clonedRoot)" = true ∧
    Gen.cloneAndProcessListBodyExpected.contains "StripAttributes(clonedSubTree)" = true ∧
    Gen.figureGenerateOutputBodyExpected.contains "domutil.StripAttributes(figure)" = true ∧
    Gen.imageCloneAndProcessBodyExpected.contains "domutil.StripAttributes(cloned)" = true ∧
    Gen.videoGenerateOutputBodyExpected.contains "domutil.StripAttributes(vNode)" = true := by
  decide +kernel

/-- script and style elements are never cloned into tables/captions, whatever the style
regexps answer (`GetOutputNodes` as modelled in Distill.Model.Render; its statement list is
pinned below) -/
theorem no_script_style_in_clones (A : CAtoms) (n : Node) :
    ∀ t ∈ outputTags A n, t ≠ "script" ∧ t ≠ "style" :=
  outputTags_no_script A n

theorem get_output_nodes_tie : Gen.getOutputNodesBody = Gen.getOutputNodesBodyExpected := by rfl

end Distill.C05
