/-
  Property-level theorems about the rendering of Text elements and of the document
  (`Text.GenerateOutput`, `TreeClone`, `Document.GenerateOutput`; model: Distill.Model.TextRender,
  executed against the real functions in the correspondence stages `textrender` and `docoutput`).
  Used by C01, C02, C05, C06, C07, C09.
-/
import Distill.Proofs.TextRender
import Distill.Proofs.MediaRender
import Distill.Proofs.ImageExtract
import Distill.Gen.Funcs
import Distill.Gen.Tables
namespace Distill.RenderProps
open Distill

/-- the functions the model follows are the ones in the source (regenerated statement lists) -/
theorem source_tie : Gen.textRenderBodies = Gen.textRenderBodiesExpected := by rfl

/-- the two regular expressions of `InnerText` that `Model/TextRender.lean` spells out (`fixPunct`,
`fixNewline`) are the ones in the source -/
theorem innertext_regexps_tie :
    Gen.modelledRegexps.lookup "internal/domutil.rxPunctuation" = some "\\s+([.?!,;])\\s*(\\S*)" ∧
    Gen.modelledRegexps.lookup "internal/domutil.rxTempNewline" = some "\\s*\\|\\\\/\\|\\s*" := by
  constructor <;> decide +kernel

/-- **C02 (rendering half).** `TreeClone` neither invents, duplicates nor reorders: the clone's
text nodes are the listed text nodes of the converter's tree, in document order. -/
theorem tree_clone_excerpt (ids : List Nat) (top : Node) (anc : List Shell) (c : Node)
    (h : treeClone ids top = some (anc, c)) :
    c.textIds = top.textIds.filter (fun i => ids.contains i) :=
  treeClone_textIds ids top anc c h

/-- **C02 (rendering half).** The processed clone `Text.GenerateOutput` serialises holds exactly
the window's text nodes, in document order — for every tree, window, display atoms and URL
resolvers (root other than `body`; for `body` see `body_step_keeps_characters`). -/
theorem text_render_excerpt (A : CAtoms) (abs absSet : String → String) (ids : List Nat) (top : Node)
    (anc : List Shell) (r0 out : Node)
    (hv : ∀ anc0 c, treeClone ids top = some (anc0, c) → NoVoid anc0)
    (hs : textCloneStart ids top = some (anc, r0)) (hb : r0.tag ≠ "body")
    (h : textClone A abs absSet ids top = some out) :
    out.textIds = top.textIds.filter (fun i => ids.contains i) :=
  textClone_textIds A abs absSet ids top anc r0 out hv hs hb h

/-- … and without the premise `hv` (no ancestor of the window is named like a void HTML element — in
the HTML namespace the parser gives such elements no children, so only SVG / MathML elements such as
`<math><wbr>text` can break it; `dom.AppendChild` then refuses to put the clone into the ancestor's copy
and the implementation loses that text from both views, as the model does): the clone never holds a
text node from outside the window, none twice, none out of order. -/
theorem text_render_never_adds (A : CAtoms) (abs absSet : String → String) (ids : List Nat) (top : Node)
    (anc : List Shell) (r0 out : Node)
    (hs : textCloneStart ids top = some (anc, r0)) (hb : r0.tag ≠ "body")
    (h : textClone A abs absSet ids top = some out) :
    out.textIds.Sublist (top.textIds.filter (fun i => ids.contains i)) :=
  textClone_textIds_sublist A abs absSet ids top anc r0 out hs hb h

theorem body_step_keeps_characters (i : Nat) (attrs : List Attr) (ks : List Node) :
    ∃ ks', bodyToDiv (.elem i "body" attrs ks) = .elem synthDivId "div" [] (trimLastText (trimFirstText ks')) ∧
      textDataL ks' = textDataL ks :=
  body_step_text i attrs ks

/-- **C01.** `Text.GenerateOutput` never dereferences nil and its climbing loop terminates (it is
structural recursion over the source ancestors): for a converter tree rooted at an element and a
window that names a node of it, the model returns a clone. -/
theorem text_render_total (A : CAtoms) (abs absSet : String → String) (ids : List Nat) (top : Node)
    (j : Nat) (hj : ids.contains j = true) (hin : top.hasId j = true) (htop : top.isElem = true) :
    (textClone A abs absSet ids top).isSome = true :=
  textClone_total A abs absSet ids top j hj hin htop

/-- **C05.** Every attribute of every element of the clone a Text element serialises — including
the shallow clones of source ancestors the climbing loop wraps around it — is allow-listed and
neither an event handler nor id / class / style / data-*. -/
theorem text_render_attrs_safe (A : CAtoms) (abs absSet : String → String) (ids : List Nat) (top out : Node)
    (h : textClone A abs absSet ids top = some out) : out.allAttrsSafe = true := by
  rw [textClone_eq] at h
  cases hs : textCloneStart ids top with
  | none => rw [hs] at h; cases h
  | some p =>
    rw [hs] at h
    simp only [Option.map_some, Option.some.injEq] at h
    rw [← h]
    exact stripNode_safe _

/-- **C06.** In that clone every a[href], video[poster], src and srcset — again including the
wrapped ancestors — is empty or an image of the resolver. -/
theorem text_render_urls_abs (A : CAtoms) (abs absSet : String → String) (ids : List Nat) (top out : Node)
    (h : textClone A abs absSet ids top = some out) : out.allUrlsAbs abs absSet := by
  rw [textClone_eq] at h
  cases hs : textCloneStart ids top with
  | none => rw [hs] at h; cases h
  | some p =>
    rw [hs] at h
    simp only [Option.map_some, Option.some.injEq] at h
    rw [← h]
    exact stripNode_abs abs absSet _ (absNode_abs abs absSet _)

/-- **C02 / C09.** `Document.GenerateOutput`: both views are the concatenation, in element-list
order, of the renderings of the same content elements. -/
theorem doc_output_spec (textOnly : Bool) (es : List OutEl) :
    docOutput textOnly es =
      ((es.filter (·.content)).map (fun e => if textOnly then e.text ++ ['\n'] else e.html)).flatten :=
  docOutput_spec textOnly es

theorem doc_output_append (textOnly : Bool) (a b : List OutEl) :
    docOutput textOnly (a ++ b) = docOutput textOnly a ++ docOutput textOnly b :=
  docOutput_append textOnly a b

/-- **C07.** A Text whose clone is rooted at a nestable element (ul/ol/li/blockquote/pre) emits
the inner HTML only: the wrapper itself comes from the surrounding placeholder tags, so it is not
duplicated. -/
theorem nestable_root_emits_inner (A : CAtoms) (abs absSet : String → String) (ids : List Nat) (top r : Node)
    (h : textClone A abs absSet ids top = some r) (hn : nestableTag r.tag = true) :
    textOutput A abs absSet false false ids top = some (innerHTML r) := by
  simp [textOutput, h, hn]

theorem non_nestable_root_emits_outer (A : CAtoms) (abs absSet : String → String) (ids : List Nat) (top r : Node)
    (h : textClone A abs absSet ids top = some r) (hn : nestableTag r.tag = false) :
    textOutput A abs absSet false false ids top = some (outerHTML r) := by
  simp [textOutput, h, hn]

/-- **C07.** The climbing loop never wraps an element that is kept by a pair of tags, whatever
display its inline style claims: such a root is returned as it is, so (by
`nestable_root_emits_inner`) only its inner HTML is emitted and the element is not duplicated. -/
theorem climb_stops_at_nestable (A : CAtoms) (root : Node) (anc : List Shell) (h : nestableTag root.tag = true) :
    climb A root anc = root := by
  cases anc with
  | nil => rfl
  | cons s rest =>
    unfold climb
    split
    · rfl
    · simp [h]

/-- **C15.** a Text carrying the TITLE label renders as nothing in both views -/
theorem title_text_renders_empty (A : CAtoms) (abs absSet : String → String) (textOnly : Bool) (ids : List Nat) (top : Node) :
    textOutput A abs absSet true textOnly ids top = some [] := by
  simp [textOutput]

/-! ## the other element kinds (model: Distill.Model.MediaRender, stage `mediarender`) -/

theorem media_source_tie : Gen.mediaRenderBodies = Gen.mediaRenderBodiesExpected := by rfl

/-- **C05.** Every attribute in the serialised tree of an image, a figure (image and caption), a
video and a data table is allow-listed and neither an event handler nor id/class/style/data-*. -/
theorem media_attrs_safe (A : CAtoms) (abs absSet : String → String) (el caption : Node) :
    (imageClone abs absSet el).allAttrsSafe = true ∧
    (videoTree abs absSet el).allAttrsSafe = true ∧
    (∀ f, figureTree A abs absSet el caption = some f → f.allAttrsSafe = true) ∧
    (∀ c, cloneAndProcessTree A abs absSet el = some c → c.allAttrsSafe = true) :=
  ⟨imageClone_safe abs absSet el, videoTree_safe abs absSet el,
   fun f h => figureTree_safe A abs absSet el caption f h,
   fun c h => cloneAndProcessTree_safe A abs absSet el c h⟩

/-- **C05.** An embed placeholder: the wrapper carries exactly the three markers the distiller
writes; below it every attribute is safe and no script or style element survives. -/
theorem embed_placeholder_inert (A : CAtoms) (type id : String) (el : Node) :
    (embedTree A type id el).attrs = [⟨"class", "embed-placeholder"⟩, ⟨"data-type", type⟩, ⟨"data-id", id⟩] ∧
    (embedTree A type id el).tag = "div" ∧
    allAttrsSafeL (embedTree A type id el).kids = true ∧
    (∀ k ∈ (embedTree A type id el).kids,
      (k.tag = "blockquote" ∨ k.tag = "iframe") ∧ ∀ t ∈ tagsL k.kids, t ≠ "script" ∧ t ≠ "style") :=
  ⟨rfl, rfl, embedKids_safe A el, embedKids_no_script A el⟩

/-- **C05.** SVG / MathML elements that carry the name of an HTML raw text element (their character
data would be serialised unescaped and come back as markup) are neither collected into table and
caption clones nor left below an embedded element. -/
theorem foreign_raw_text_kept_out (A : CAtoms) (i : Nat) (t : String) (attrs : List Attr) (ks : List Node)
    (h : A.foreignRaw i = true) :
    outputIds A (.elem i t attrs ks) = [] ∧
    ∀ el, ∀ j ∈ elemIdsL (dropScriptStyle A el).kids, A.foreignRaw j = false :=
  ⟨outputIds_hidden A i t attrs ks (Or.inr (Or.inr (Or.inr h))), fun el => dropScriptStyle_kids_noForeign A el⟩

/-- **C06.** Image and video clones: every `src` of img/source/track/video and every `srcset` is
empty or an image of the resolver, the video's own poster too; table and caption clones: all four
URL-bearing attributes. -/
theorem media_urls_abs (A : CAtoms) (abs absSet : String → String) (el : Node) :
    (imageClone abs absSet el).allSrcAbs abs absSet ∧
    (videoTree abs absSet el).allSrcAbs abs absSet ∧
    (∀ a ∈ posterAbs abs el.attrs, a.key = "poster" → IsImg abs a.val) ∧
    (∀ c, cloneAndProcessTree A abs absSet el = some c → c.allUrlsAbs abs absSet) :=
  ⟨imageClone_srcAbs abs absSet el, videoTree_srcAbs abs absSet el, posterAbs_spec abs el.attrs,
   fun c h => cloneAndProcessTree_abs A abs absSet el c h⟩

/-- **C04.** A table / caption clone holds only text nodes `GetOutputNodes` collected, and nothing
below an element the visibility test rejects, or below script / style, is collected. -/
theorem table_clone_visible_only (A : CAtoms) (abs absSet : String → String) (root c : Node)
    (h : cloneAndProcessTree A abs absSet root = some c) :
    c.textIds = root.textIds.filter (fun i => (outputIds A root).contains i) :=
  cloneAndProcessTree_textIds A abs absSet root c h

theorem hidden_not_collected (A : CAtoms) (i : Nat) (t : String) (attrs : List Attr) (ks : List Node)
    (h : visible A i t attrs = false ∨ t = "script" ∨ t = "style") :
    outputIds A (.elem i t attrs ks) = [] :=
  outputIds_hidden A i t attrs ks (by rcases h with h | h | h <;> simp [h])

/-- **C09.** What an image / figure contributes to ContentImages is, in document order, src and
srcset URLs of elements of the very clone its HTML view serialises; likewise for a table (`img` and
`source` being void elements); the document concatenates the lists of its content elements. -/
theorem image_urls_from_clone (abs absSet : String → String) (setURLs : String → List String) (el : Node) :
    (imageURLs abs absSet setURLs el).Sublist ((imageClone abs absSet el).imageCands setURLs) :=
  imageURLsOf_sublist setURLs _

theorem table_urls_from_clone (A : CAtoms) (abs absSet : String → String) (setURLs : String → List String)
    (table c : Node) (h : cloneAndProcessTree A abs absSet table = some c) (hv : voidLeavesL c.kids) :
    (tableImageURLs A abs absSet setURLs table).Sublist (imageCandsL setURLs c.kids) := by
  simp only [tableImageURLs, h]
  exact tableImageURLsBelow_sublist setURLs c.kids hv

theorem doc_image_urls_spec (es : List (Bool × List String)) :
    docImageURLs es = ((es.filter (·.1)).map (·.2)).flatten :=
  docImageURLs_spec es

/-! ## the image extractor (model: Distill.Model.ImageExtract, stage `imageextract`) -/

theorem image_extract_tie : Gen.imageExtractBodies = Gen.imageExtractBodiesExpected := by rfl

/-- **C02 / C04.** What the extractor leaves of a `<picture>`: every element below it is an `img` or
a `source`, and its direct children are elements only — no stray text, no comment — so nothing of
the page's text or comments travels with the image clone. -/
theorem picture_reduced (i : Nat) (t : String) (a : List Attr) (ks : List Node) :
    (∀ x ∈ tagsL (Img.processPicture (.elem i t a ks)).kids, x = "img" ∨ x = "source") ∧
    (∀ k ∈ (Img.processPicture (.elem i t a ks)).kids, k.isElem = true) :=
  ⟨Img.processPicture_only_img_source i t a ks, Img.processPicture_kids_are_elements i t a ks⟩

/-- **C04.** The caption taken from a figure is a `figcaption` the visibility test accepts, and
nothing below a rejected element is ever taken; a caption the extractor creates holds one text
node with the visible text of its base. -/
theorem figure_caption_visible (A : CAtoms) (ks : List Node) (c : Node) (h : Img.visibleCaptionL A ks = some c) :
    c.tag = "figcaption" ∧ visible A c.id c.tag c.attrs = true :=
  Img.visibleCaptionL_spec A ks c h

theorem hidden_caption_ignored (A : CAtoms) (i : Nat) (t : String) (a : List Attr) (ks : List Node)
    (h : visible A i t a = false) : Img.visibleCaption A (.elem i t a ks) = none :=
  Img.visibleCaption_hidden A i t a ks h

theorem created_caption_shape (A : CAtoms) (base : Node) :
    ∃ d, Img.createCaption A base = .elem Img.synthCaptionId "figcaption" [] [.text Img.synthCaptionTextId d] :=
  Img.createCaption_shape A base

/-! non-vacuity -/
example : (Img.processPicture (.elem 0 "picture" [] [.text 1 "stray", .other 2 4, .elem 3 "span" [] [.text 4 "x"],
    .elem 5 "source" [⟨"srcset", "a.webp 1x"⟩] []])).kids.map Node.tag = ["img"] := by
  simp [Img.processPicture, Img.onlyImgSource, Img.countTagL, Img.countTag, Img.renameFirstSourceL,
    Img.renameFirstSource, Node.kids, Node.isElem, Node.tag]

def exPicture : Node :=
  .elem 0 "picture" [⟨"class", "c"⟩] [.elem 1 "source" [⟨"srcset", "a.webp 1x"⟩, ⟨"onload", "x()"⟩] [],
                                      .elem 2 "img" [⟨"src", "b.jpg"⟩, ⟨"srcset", "c.jpg 2x"⟩, ⟨"id", "i"⟩] []]
example : String.ofList (imageOutput (fun s => "http://e/" ++ s) (fun s => "S(" ++ s ++ ")") false exPicture) =
    "<picture><source srcset=\"S(a.webp 1x)\"/><img src=\"http://e/http://e/b.jpg\" srcset=\"S(c.jpg 2x)\"/></picture>" := by
  decide +kernel
example : imageURLs id id (fun s => [s]) exPicture = ["a.webp 1x", "c.jpg 2x"] := by decide +kernel
example : String.ofList (embedOutput
    { styleDisplay := fun _ => "", visHidden := fun _ => false, byline := fun _ => false, rxUnlikely := fun _ => false,
      rxMaybe := fun _ => false, embed := fun _ => .none, dataTable := fun _ => false, blank := fun _ => false, words := fun _ => 0 }
    false "twitter" "55"
    (.elem 0 "blockquote" [⟨"class", "twitter-tweet"⟩] [.elem 1 "p" [] [.text 2 "w"], .elem 3 "script" [⟨"src", "x.js"⟩] []])) =
    "<div class=\"embed-placeholder\" data-type=\"twitter\" data-id=\"55\"><blockquote><p>w</p></blockquote></div>" := by
  decide +kernel

/-! non-vacuity: a link inside an inline element inside a heading; the window is the single text
node, the clone climbs `em → a → h2`, the link is resolved and `id`/`onclick` are gone -/
def exTop : Node :=
  .elem 0 "div" [] [.elem 1 "h2" [⟨"id", "x"⟩] [.elem 2 "a" [⟨"href", "s.html"⟩, ⟨"onclick", "f()"⟩] [.elem 3 "em" [] [.text 4 "w1 w2"]]],
                    .elem 5 "p" [] [.text 6 "w3"]]
def exAtoms : CAtoms :=
  { styleDisplay := fun _ => "", visHidden := fun _ => false, byline := fun _ => false, rxUnlikely := fun _ => false,
    rxMaybe := fun _ => false, embed := fun _ => .none, dataTable := fun _ => false, blank := fun _ => false, words := fun _ => 0 }

example : (textOutput exAtoms (fun s => "http://e/" ++ s) id false false [4] exTop).map String.ofList =
    some "<h2><a href=\"http://e/s.html\"><em>w1 w2</em></a></h2>" := by decide +kernel
example : (textOutput exAtoms (fun s => "http://e/" ++ s) id false true [4] exTop).map String.ofList = some "w1 w2" := by
  decide +kernel
example : (textClone exAtoms id id [4] exTop).isSome = true ∧ exTop.hasId 4 = true := by decide +kernel

end Distill.RenderProps
