/-
  Property-level theorems about the rendering of Text elements and of the document
  (`Text.GenerateOutput`, `TreeClone`, `Document.GenerateOutput`; model: Distill.Model.TextRender,
  executed against the real functions in the correspondence stages `textrender` and `docoutput`).
  Used by C01, C02, C05, C06, C07, C09.
-/
import Distill.Proofs.TextRender
import Distill.Gen.Funcs
namespace Distill.RenderProps
open Distill

/-- the functions the model follows are the ones in the source (regenerated statement lists) -/
theorem source_tie : Gen.textRenderBodies = Gen.textRenderBodiesExpected := by rfl

/-- **C02 (rendering half).** `TreeClone` neither invents, duplicates nor reorders: the clone's
text nodes are the listed text nodes of the converter's tree, in document order. -/
theorem tree_clone_excerpt (ids : List Nat) (top : Node) (anc : List Shell) (c : Node)
    (h : treeClone ids top = some (anc, c)) :
    c.textIds = top.textIds.filter (fun i => ids.contains i) :=
  treeClone_textIds ids top anc c h

/-- **C02 (rendering half).** The processed clone `Text.GenerateOutput` serialises holds exactly
the window's text nodes, in document order — for every tree, window, display atoms and URL
resolvers (root other than `body`; for `body` see `body_step_keeps_characters`). -/
theorem text_render_excerpt (A : CAtoms) (abs absSet : String → String) (ids : List Nat) (top : Node)
    (anc : List Shell) (r0 out : Node)
    (hs : textCloneStart ids top = some (anc, r0)) (hb : r0.tag ≠ "body")
    (h : textClone A abs absSet ids top = some out) :
    out.textIds = top.textIds.filter (fun i => ids.contains i) :=
  textClone_textIds A abs absSet ids top anc r0 out hs hb h

theorem body_step_keeps_characters (i : Nat) (attrs : List Attr) (ks : List Node) :
    ∃ ks', bodyToDiv (.elem i "body" attrs ks) = .elem synthDivId "div" [] (trimLastText (trimFirstText ks')) ∧
      textDataL ks' = textDataL ks :=
  body_step_text i attrs ks

/-- **C01.** `Text.GenerateOutput` never dereferences nil and its climbing loop terminates (it is
structural recursion over the source ancestors): for a converter tree rooted at an element and a
window that names a node of it, the model returns a clone. -/
theorem text_render_total (A : CAtoms) (abs absSet : String → String) (ids : List Nat) (top : Node)
    (j : Nat) (hj : ids.contains j = true) (hin : top.hasId j = true) (htop : top.isElem = true) :
    (textClone A abs absSet ids top).isSome = true :=
  textClone_total A abs absSet ids top j hj hin htop

/-- **C05.** Every attribute of every element of the clone a Text element serialises — including
the shallow clones of source ancestors the climbing loop wraps around it — is allow-listed and
neither an event handler nor id / class / style / data-*. -/
theorem text_render_attrs_safe (A : CAtoms) (abs absSet : String → String) (ids : List Nat) (top out : Node)
    (h : textClone A abs absSet ids top = some out) : out.allAttrsSafe = true := by
  rw [textClone_eq] at h
  cases hs : textCloneStart ids top with
  | none => rw [hs] at h; cases h
  | some p =>
    rw [hs] at h
    simp only [Option.map_some, Option.some.injEq] at h
    rw [← h]
    exact stripNode_safe _

/-- **C06.** In that clone every a[href], video[poster], src and srcset — again including the
wrapped ancestors — is empty or an image of the resolver. -/
theorem text_render_urls_abs (A : CAtoms) (abs absSet : String → String) (ids : List Nat) (top out : Node)
    (h : textClone A abs absSet ids top = some out) : out.allUrlsAbs abs absSet := by
  rw [textClone_eq] at h
  cases hs : textCloneStart ids top with
  | none => rw [hs] at h; cases h
  | some p =>
    rw [hs] at h
    simp only [Option.map_some, Option.some.injEq] at h
    rw [← h]
    exact stripNode_abs abs absSet _ (absNode_abs abs absSet _)

/-- **C02 / C09.** `Document.GenerateOutput`: both views are the concatenation, in element-list
order, of the renderings of the same content elements. -/
theorem doc_output_spec (textOnly : Bool) (es : List OutEl) :
    docOutput textOnly es =
      ((es.filter (·.content)).map (fun e => if textOnly then e.text ++ ['\n'] else e.html)).flatten :=
  docOutput_spec textOnly es

theorem doc_output_append (textOnly : Bool) (a b : List OutEl) :
    docOutput textOnly (a ++ b) = docOutput textOnly a ++ docOutput textOnly b :=
  docOutput_append textOnly a b

/-- **C07.** A Text whose clone is rooted at a nestable element (ul/ol/li/blockquote/pre) emits
the inner HTML only: the wrapper itself comes from the surrounding placeholder tags, so it is not
duplicated. -/
theorem nestable_root_emits_inner (A : CAtoms) (abs absSet : String → String) (ids : List Nat) (top r : Node)
    (h : textClone A abs absSet ids top = some r) (hn : nestableTag r.tag = true) :
    textOutput A abs absSet false false ids top = some (innerHTML r) := by
  simp [textOutput, h, hn]

theorem non_nestable_root_emits_outer (A : CAtoms) (abs absSet : String → String) (ids : List Nat) (top r : Node)
    (h : textClone A abs absSet ids top = some r) (hn : nestableTag r.tag = false) :
    textOutput A abs absSet false false ids top = some (outerHTML r) := by
  simp [textOutput, h, hn]

/-- **C15.** a Text carrying the TITLE label renders as nothing in both views -/
theorem title_text_renders_empty (A : CAtoms) (abs absSet : String → String) (textOnly : Bool) (ids : List Nat) (top : Node) :
    textOutput A abs absSet true textOnly ids top = some [] := by
  simp [textOutput]

/-! non-vacuity: a link inside an inline element inside a heading; the window is the single text
node, the clone climbs `em → a → h2`, the link is resolved and `id`/`onclick` are gone -/
def exTop : Node :=
  .elem 0 "div" [] [.elem 1 "h2" [⟨"id", "x"⟩] [.elem 2 "a" [⟨"href", "s.html"⟩, ⟨"onclick", "f()"⟩] [.elem 3 "em" [] [.text 4 "w1 w2"]]],
                    .elem 5 "p" [] [.text 6 "w3"]]
def exAtoms : CAtoms :=
  { styleDisplay := fun _ => "", visHidden := fun _ => false, byline := fun _ => false, rxUnlikely := fun _ => false,
    rxMaybe := fun _ => false, embed := fun _ => .none, dataTable := fun _ => false, blank := fun _ => false, words := fun _ => 0 }

example : (textOutput exAtoms (fun s => "http://e/" ++ s) id false false [4] exTop).map String.ofList =
    some "<h2><a href=\"http://e/s.html\"><em>w1 w2</em></a></h2>" := by decide +kernel
example : (textOutput exAtoms (fun s => "http://e/" ++ s) id false true [4] exTop).map String.ofList = some "w1 w2" := by
  decide +kernel
example : (textClone exAtoms id id [4] exTop).isSome = true ∧ exTop.hasId 4 = true := by decide +kernel

end Distill.RenderProps
