/-
  Reference resolution: `stringutil.CreateAbsoluteURL` (Model/AbsURL.lean), shared by C06 (every
  output URL) and C16 (every paging link).
-/
import Distill.Model.AbsURL
import Distill.Gen.Funcs
namespace Distill.AbsURLProps
open Distill AbsURL

/-- the function the model follows is the one in the source (regenerated statement list): no state,
no memo — the answer is a function of (url, base) -/
theorem create_abs_tie : Gen.urlBodies = Gen.urlBodiesExpected := by rfl

/-- **Pass-through**: the empty reference, fragment-only, data: and javascript: references,
references that are absolute already and references net/url cannot parse come back unchanged. -/
theorem pass_through_unchanged (url : String) (u : U) (h : passThrough url u = true) : create url u = url := by
  unfold passThrough at h
  unfold create
  repeat' split
  all_goals first | rfl | (simp_all)

/-- **Everything else is resolved against the base** -/
theorem otherwise_resolved (url : String) (u : U) (h : passThrough url u = false) : create url u = u.resolved := by
  unfold passThrough at h
  simp only [Bool.or_eq_false_iff, Bool.not_eq_eq_eq_not, Bool.not_false] at h
  obtain ⟨⟨⟨⟨⟨h1, h2⟩, h3⟩, h4⟩, h5⟩, h6⟩ := h
  simp [create, h1, h2, h3, h4, h5, h6]

/-- the answer is one of the two: the reference itself, or its resolution -/
theorem create_cases (url : String) (u : U) : create url u = url ∨ create url u = u.resolved := by
  cases h : passThrough url u
  · exact Or.inr (otherwise_resolved url u h)
  · exact Or.inl (pass_through_unchanged url u h)

example : create "#top" ⟨false, true, "http://e/p#top"⟩ = "#top" := by decide
example : create "?page=3" ⟨false, true, "http://e/news/a?page=3"⟩ = "http://e/news/a?page=3" := by decide
example : create "%zz" ⟨false, false, ""⟩ = "%zz" := by decide
example : passThrough "?page=3" ⟨false, true, "x"⟩ = false := by decide

end Distill.AbsURLProps
