/- C17: the 77 cells of URL family 8 (kernel evaluation of the model on the implementation's
page-pattern answers); one file per family so the families are checked in parallel. -/
import Distill.Props.C17Defs
namespace Distill.C17
open Distill.Gen

theorem fam8_cells : ∀ c ∈ allCells, cellOk fam8 c.1 c.2 = true := by
  decide +kernel

theorem fam8_bare : ∀ n ∈ allN, bareOk fam8 n = true := by
  decide +kernel

end Distill.C17
