/- C17: the 77 cells of URL family 1 (kernel evaluation of the model on the implementation's
page-pattern answers); one file per family so the families are checked in parallel. -/
import Distill.Props.C17Defs
namespace Distill.C17
open Distill.Gen

theorem fam1_cells : ∀ c ∈ allCells, cellOk fam1 c.1 c.2 = true := by
  decide +kernel

theorem fam1_bare : ∀ n ∈ allN, bareOk fam1 n = true := by
  decide +kernel

end Distill.C17
