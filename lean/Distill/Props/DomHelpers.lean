/-
  Tree helpers shared by every stage (internal/domutil): the deep copy the converter works on,
  the ancestor tests and the foreign raw-text test.  The model works on immutable trees, so its
  "clone" is the tree itself, complete at every depth; what has to be tied is that the source's
  `Clone` copies every field the model reads (type, tag, namespace, attributes) and ALL children
  at every depth, and that the other helpers are the loops the model's definitions stand for.
-/
import Distill.Gen.Funcs
namespace Distill.DomHelpers
open Distill

/-- regenerated statement lists of `Clone`, `IsForeignRawTextElement`, `HasAncestor`, `Contains`,
`SomeNode`, `NodeName`, `GetFirstElementByTagName(Inc)` are the ones the model was written against -/
theorem dom_helpers_tie : Gen.domHelperBodies = Gen.domHelperBodiesExpected := by rfl

/-- the deep copy copies type, tag, namespace and attributes of every node and descends without a
bound: the only condition on the recursion is `deep`, which it passes on unchanged -/
theorem clone_unbounded :
    Gen.domHelperBodiesExpected.lookup "internal/domutil..Clone" = some
      ["clone := &html.Node{ Type: src.Type, DataAtom: src.DataAtom, Data: src.Data, Namespace: src.Namespace, Attr: append([]html.Attribute{}, src.Attr...), }",
       "if deep { for child := src.FirstChild; child != nil; child = child.NextSibling { clone.AppendChild(Clone(child, deep)) } }",
       "return clone"] := by
  decide +kernel

end Distill.DomHelpers
