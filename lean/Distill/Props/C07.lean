/-
  C07 — Retained text keeps its list/quote/pre nesting; data tables are kept whole.
-/
import Distill.Props.RenderProps
import Distill.Proofs.Convert
import Distill.Proofs.Retainer
namespace Distill.C07
open Distill

/-- the five nestable tags, from the generated `CanBeNested` switch -/
theorem nestable_tie :
    Gen.nestableCases = [(["ul", "ol", "li", "blockquote", "pre"], "return true"), ([], "return false")] := by rfl

/-- **Placeholders are balanced**: for every tree, mode and atoms, the start/end placeholders
the converter emits form a properly nested sequence in which each start is closed by an end
of the same name. -/
theorem emit_balanced (cfg : CCfg) (A : CAtoms) (anc : List String) (hp : Bool) (n : Node) :
    tagRun [] (convert cfg A anc hp n) = some [] :=
  convertNode_balanced cfg A anc hp n []

/-- **A text element never spans a placeholder**: `AddTag` flushes the pending text first, so
every Text element lies entirely between two consecutive placeholders (its nodes all have the
same chain of nestable ancestors). Formally: the builder appends the placeholder after
whatever Text the flush produced, and nothing else. -/
theorem addTag_flushes (s : BSt) (n : String) (st : Bool) :
    (bstep s (.addTag n st)).out = s.flushBlock.out ++ [.tag n st] ∧
    (bstep s (.addTag n st)).tb.firstNode = s.flushBlock.tb.firstNode := by
  simp [bstep]

/-- after a flush nothing is pending: the next Text starts at the current end of the node list -/
theorem flushBlock_nothing_pending (s : BSt) (h : BInv s) :
    s.flushBlock.tb.firstNode = s.flushBlock.tb.nodes.length ∨
    (s.tb.firstNode = s.tb.nodes.length ∧ s.flushBlock = s) := by
  unfold BSt.flushBlock TB.build
  split
  · rename_i tb heq
    split at heq
    · rename_i h0; cases heq; right; exact ⟨h0, rfl⟩
    · split at heq
      · cases heq; left; simp [TB.reset]
      · cases heq
  · rename_i tb t heq
    split at heq
    · cases heq
    · split at heq
      · cases heq
      · cases heq; left; simp [TB.reset]

/-- **Retainer**: on every well-nested element list the retainer never underflows and flags
each placeholder pair with "some content element lies inside it" (restated from
Proofs/Retainer). -/
theorem retainer_spec (ts : List RT) :
    ∃ s', rrun {} (RT.flatL ts) = some (s', RT.postL false ts) :=
  retainer_run ts

theorem retainer_final_flags (ts : List RT) (i j : Nat) (c : Bool)
    (hnd : (RT.idxL ts).Nodup) (hp : RT.hasPairL i j c ts) :
    finalFlag i (RT.postL false ts) = some c ∧ finalFlag j (RT.postL false ts) = some c :=
  RT.finalL_spec i j c ts false hnd hp

/-- a nested pair's content makes every enclosing pair content too (nested lists stay nested) -/
theorem enclosing_pair_retained (i j : Nat) (ks : List RT) (h : RT.hasCL ks = true) :
    (RT.pair i j ks).hasC = true := by
  simpa [RT.hasC] using h

end Distill.C07
