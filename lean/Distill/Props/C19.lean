/-
  C19 — Third-party frames survive only for allow-listed services, with the right id.
-/
import Distill.Props.RenderProps
import Distill.Model.Embed
import Distill.Gen.Tables
namespace Distill.C19
open Distill

/-- **Root-domain test** (about the expression regenerated from `domutil.HasRootDomain`):
it is true exactly when URL and root are non-empty, the URL parses, and the parsed host is
the root or ends with "." ++ root. -/
theorem root_match_spec (u : RootDomainAtoms) :
    Gen.hasRootDomain u =
      some (!u.urlEmpty && !u.rootEmpty && !u.parseErr && rootMatchSpec u.host u.root) := by
  simp only [Gen.hasRootDomain, rootMatchSpec]
  cases u.urlEmpty <;> cases u.rootEmpty <;> cases u.parseErr <;> simp

/-- a host that merely *ends* with the service name (prefix look-alike, e.g.
`evil-youtube.com`, `notyoutube.com`) is not the root … -/
theorem prefix_lookalike_ne (pre r : List Char) (hne : pre ≠ []) : pre ++ r ≠ r := by
  intro h
  have := congrArg List.length h
  simp at this
  exact hne this

/-- … and is not a sub-domain of it unless the character before the name is a dot -/
theorem prefix_lookalike_not_suffix (pre r : List Char) (hlast : pre.getLast? ≠ some '.') :
    ¬ ('.' :: r) <:+ (pre ++ r) := by
  intro ⟨t, ht⟩
  -- t ++ '.' :: r = pre ++ r  ⇒  t ++ ['.'] = pre
  have h1 : (t ++ ['.']) ++ r = pre ++ r := by simpa using ht
  have h2 : t ++ ['.'] = pre := List.append_cancel_right h1
  apply hlast
  rw [← h2]; simp

/-- the string-level reading of both facts -/
theorem prefix_lookalike_rejected (pre root : String) (hne : pre.toList ≠ [])
    (hlast : pre.toList.getLast? ≠ some '.') :
    rootMatchSpec (pre ++ root) root = false := by
  unfold rootMatchSpec strHasSuffix
  have h1 : ((pre ++ root) == root) = false := by
    rw [beq_eq_false_iff_ne]
    intro h
    have := congrArg String.toList h
    simp only [String.toList_append] at this
    exact prefix_lookalike_ne _ _ hne this
  have h2 : (("." ++ root).toList.isSuffixOf (pre ++ root).toList) = false := by
    rw [Bool.eq_false_iff]
    intro h
    rw [List.isSuffixOf_iff_suffix] at h
    simp only [String.toList_append] at h
    exact prefix_lookalike_not_suffix _ _ hlast h
  rw [h1, h2]; rfl

/-- **Accepted hosts, characterised for all strings**: the root-domain test accepts a host
exactly when the host is the root preceded by nothing, or by labels that end in a dot.  Every
look-alike family is an instance of the right-to-left failure: a host that goes on after the
service name (`youtube.com.evil.example`), one that glues something in front of it
(`notyoutube.com`), one that only contains it. -/
theorem accepted_host_iff (host root : String) :
    rootMatchSpec host root = true ↔
      ∃ sub : List Char, host.toList = sub ++ root.toList ∧ (sub = [] ∨ sub.getLast? = some '.') := by
  unfold rootMatchSpec strHasSuffix
  rw [Bool.or_eq_true, beq_iff_eq, List.isSuffixOf_iff_suffix]
  simp only [String.toList_append]
  constructor
  · rintro (h | ⟨t, ht⟩)
    · exact ⟨[], by simp [h], Or.inl rfl⟩
    · refine ⟨t ++ ['.'], ?_, Or.inr (by simp)⟩
      rw [← ht]
      show t ++ (['.'] ++ root.toList) = (t ++ ['.']) ++ root.toList
      simp
  · rintro ⟨sub, hs, hsub⟩
    rcases hsub with h0 | hl
    · left
      subst h0
      exact String.toList_inj.mp (by simpa using hs)
    · right
      have hne : sub ≠ [] := by intro h; simp [h] at hl
      have hd : sub = sub.dropLast ++ ['.'] := by
        have h1 := List.dropLast_concat_getLast hne
        have h2 : sub.getLast hne = '.' := by
          have := List.getLast?_eq_some_getLast hne
          rw [hl] at this
          exact (Option.some.inj this).symm
        rw [h2] at h1
        exact h1.symm
      refine ⟨sub.dropLast, ?_⟩
      rw [hs]
      conv => rhs; rw [hd]
      show sub.dropLast ++ (['.'] ++ root.toList) = (sub.dropLast ++ ['.']) ++ root.toList
      simp

/-- in particular an accepted host *ends* with the service name: a host that continues after it
(`youtube.com.evil.example`) is rejected, whatever the rest is -/
theorem accepted_host_ends_with_root (host root : String)
    (h : rootMatchSpec host root = true) : root.toList <:+ host.toList := by
  obtain ⟨sub, hs, _⟩ := (accepted_host_iff host root).mp h
  exact ⟨sub, hs.symm⟩

theorem suffix_lookalike_rejected (host root : String)
    (h : ¬ root.toList <:+ host.toList) : rootMatchSpec host root = false := by
  rw [Bool.eq_false_iff]
  intro ht
  exact h (accepted_host_ends_with_root host root ht)

example : ¬ "youtube.com".toList <:+ "youtube.com.evil.example".toList := by decide
example : rootMatchSpec "www.youtube.com" "youtube.com" = true := by decide   -- the accepting side is inhabited
example : rootMatchSpec "youtube.com.evil.example" "youtube.com" = false :=
  suffix_lookalike_rejected _ _ (by decide)

/-! concrete look-alikes and tricks, decided by the kernel on the generated expression -/
section
def hostAtoms (host root : String) : RootDomainAtoms :=
  { urlEmpty := false, rootEmpty := false, parseErr := false, host := host, root := root }
example : Gen.hasRootDomain (hostAtoms "youtube.com" "youtube.com") = some true := by decide
example : Gen.hasRootDomain (hostAtoms "www.youtube.com" "youtube.com") = some true := by decide
example : Gen.hasRootDomain (hostAtoms "youtube.com.evil.example" "youtube.com") = some false := by decide
example : Gen.hasRootDomain (hostAtoms "evil-youtube.com" "youtube.com") = some false := by decide
example : Gen.hasRootDomain (hostAtoms "notplayer.vimeo.com" "player.vimeo.com") = some false := by decide
example : Gen.hasRootDomain (hostAtoms "evil.example" "twitter.com") = some false := by decide
example : Gen.hasRootDomain (hostAtoms "twitter.com:80" "twitter.com") = some false := by decide
end

/-- **Only allow-listed services, with the id taken from that URL**: whenever the converter's
extractor chain recognises a node as a third-party embed, the service-specific URL passed the
root-domain test for one of the four allow-listed domains, and type and id are the service
name and the id the service's URL helper extracted from that same URL (non-empty). -/
theorem embed_only_allowlisted (a : EmbedAtoms) (ty id : String)
    (h : embedDecision a = some (ty, id)) :
    (ty = "twitter" ∧ a.tag = "blockquote" ∧ a.twAnchorRoot "twitter.com" = true ∧ id = a.tweetIdFromUrl ∧ id ≠ "") ∨
    (ty = "twitter" ∧ a.tag = "iframe" ∧ a.twSrcRoot "twitter.com" = true ∧ id = a.tweetIdAttr ∧ id ≠ "") ∨
    (ty = "vimeo" ∧ a.tag = "iframe" ∧ a.vmRoot "player.vimeo.com" = true ∧ id = a.vmId ∧ id ≠ "") ∨
    (ty = "youtube" ∧ (a.tag = "iframe" ∨ a.tag = "object") ∧
      (a.ytRoot "youtube.com" = true ∨ a.ytRoot "youtube-nocookie.com" = true) ∧ id = a.ytId ∧ id ≠ "") := by
  unfold embedDecision at h
  split at h
  · -- twitter
    rename_i r hr
    cases h
    unfold twitterExtract at hr
    split at hr; · simp at hr
    split at hr; · simp at hr
    split at hr
    · rename_i htag
      left
      simp only [Gen.twitterNonRendered, unwrapGen] at hr
      split at hr; · simp at hr
      split at hr; · simp at hr
      split at hr; · simp at hr
      split at hr; · simp at hr
      simp at hr
      obtain ⟨h1, h2⟩ := hr
      subst h1; subst h2
      simp_all
    · right; left
      simp only [Gen.twitterRendered, unwrapGen] at hr
      split at hr; · simp at hr
      split at hr; · simp at hr
      split at hr; · simp at hr
      simp at hr
      obtain ⟨h1, h2⟩ := hr
      subst h1; subst h2
      simp_all
  · split at h
    · rename_i r hr
      cases h
      right; right; left
      simp only [Gen.vimeoExtract, unwrapGen] at hr
      split at hr; · simp at hr
      split at hr; · simp at hr
      split at hr; · simp at hr
      split at hr; · simp at hr
      simp at hr
      obtain ⟨h1, h2⟩ := hr
      subst h1; subst h2
      rename_i htag _ _
      have : a.tag = "iframe" := by
        simp [Gen.relevantVimeoTags] at htag; exact htag
      simp_all
    · right; right; right
      simp only [Gen.youtubeExtract, unwrapGen] at h
      split at h; · simp at h
      split at h; · simp at h
      split at h; · simp at h
      split at h; · simp at h
      simp at h
      obtain ⟨h1, h2⟩ := h
      subst h1; subst h2
      rename_i htag hroot _
      have : a.tag = "iframe" ∨ a.tag = "object" := by
        simp [Gen.relevantYouTubeTags] at htag
        by_cases hi : a.tag = "iframe"
        · exact Or.inl hi
        · exact Or.inr (htag hi)
      refine ⟨rfl, this, ?_, rfl, by simp_all⟩
      simp at hroot
      by_cases hy : a.ytRoot "youtube.com" = true
      · exact Or.inl hy
      · right; simp at hy; exact hroot hy

/-- the id helper returns one of the path segments (never something made up) -/
theorem idOf_mem (skip : Option String) (segs : List String) (h : idOf skip segs ≠ "") :
    idOf skip segs ∈ segs := by
  unfold idOf at *
  split at h
  · simp at h
  · rename_i s hs
    split at h
    · simp at h
    · rename_i hne
      simp only [hne, if_false]
      have := List.mem_of_find?_eq_some hs
      simpa using this

example : idOf (some "embed") ["", "embed", "abc123", ""] = "abc123" := by decide
example : idOf (some "embed") ["", "v", "embed"] = "" := by decide
example : idOf none ["", "jack", "status", "20"] = "20" := by decide

/-- an iframe that no extractor recognises is skipped by the converter without being
visited: `iframe` is in the generated "skipped silently" clause of the tag switch -/
theorem iframe_skipped_silently :
    ∃ c ∈ Gen.converterCases, "iframe" ∈ c.1 ∧ c.2 = "return false" := by
  decide

end Distill.C19
