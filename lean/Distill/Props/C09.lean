/-
  C09 — The views of one result agree: Text, HTML, ContentImages and WordCount.
-/
import Distill.Props.RenderProps
import Distill.Model.Words
import Distill.Props.FiltersProps
import Distill.Proofs.Render
import Distill.Gen.Funcs
import Distill.Gen.Tables
namespace Distill.C09
open Distill

/-! ### both views of an element come from one processed clone -/

/-- statement lists of the rendering functions: Text, table and caption compute ONE processed
clone and return `InnerText(clone)` for the text view and its serialisation for the HTML view;
image, video, embed and tag have an empty text view; the document concatenates the content
elements in order for both views; ContentImages is read, in element order, from the same
processed image / figure / table clones -/
theorem views_same_tree_tie :
    Gen.textGenerateOutputBody = Gen.textGenerateOutputBodyExpected ∧
    Gen.tableGenerateOutputBody = Gen.tableGenerateOutputBodyExpected ∧
    Gen.figureGenerateOutputBody = Gen.figureGenerateOutputBodyExpected ∧
    Gen.imageGenerateOutputBody = Gen.imageGenerateOutputBodyExpected ∧
    Gen.documentGenerateOutputBody = Gen.documentGenerateOutputBodyExpected ∧
    Gen.documentGetImageURLsBody = Gen.documentGetImageURLsBodyExpected := by
  refine ⟨rfl, rfl, rfl, rfl, rfl, rfl⟩

theorem text_view_is_innerText_of_html_view :
    Gen.textGenerateOutputBodyExpected.contains "if textOnly { return domutil.InnerText(clonedRoot) }" = true ∧
    Gen.tableGenerateOutputBodyExpected.contains "if textOnly { return domutil.InnerText(t.cloned) }" = true ∧
    Gen.figureGenerateOutputBodyExpected.contains "if textOnly { return domutil.InnerText(figCaption) }" = true ∧
    Gen.imageGenerateOutputBodyExpected.contains "if textOnly { return \"\" }" = true := by
  decide +kernel

/-- the text view (`InnerText`: text not inside an element the visibility test rejects) of a
processed clone is, by definition of the model, the visible text of that same clone; and
processing (absolutise, strip) does not change which text nodes the clone has -/
theorem processed_same_text (abs absSet : String → String) (n : Node) :
    (processClone abs absSet n).textIds = n.textIds := by
  unfold processClone
  rw [stripNode_textIds]
  -- absolutising rewrites attributes only
  have : ∀ m : Node, (absNode abs absSet m).textIds = m.textIds := by
    intro m
    exact absNode_textIds abs absSet m
  exact this n
where
  absNode_textIds (abs absSet : String → String) : (m : Node) → (absNode abs absSet m).textIds = m.textIds
    | .text _ _ => rfl
    | .other _ _ => rfl
    | .elem i t attrs ks => by
      simp only [absNode, Node.textIds]
      exact absNodeL_textIds abs absSet ks
  absNodeL_textIds (abs absSet : String → String) : (ks : List Node) → textIdsL (absNodeL abs absSet ks) = textIdsL ks
    | [] => rfl
    | k :: ks => by
      simp only [absNodeL, textIdsL, absNode_textIds abs absSet k, absNodeL_textIds abs absSet ks]

/-! ### word count -/

theorem countFrom_append_space (i h : Bool) (a b : List Char) :
    countFrom i h (a ++ ' ' :: b) = countFrom i h a + countWords b := by
  induction a generalizing i h with
  | nil =>
    have : isReWS ' ' = true := by decide
    simp [countFrom, countFromW, countWords, this]
  | cons c cs ih =>
    have ih' : ∀ i h, countFromW isWordChar i h (cs ++ ' ' :: b) = countFromW isWordChar i h cs + countWords b := ih
    simp only [List.cons_append, countFrom, countFromW]
    split
    · rw [ih']; omega
    · rw [ih']

/-- **The counter is additive over space-separated pieces.** -/
theorem wordcount_additive (a b : List Char) :
    countWords (a ++ ' ' :: b) = countWords a + countWords b :=
  countFrom_append_space false false a b

theorem countWords_space_cons (a : List Char) : countWords (' ' :: a) = countWords a := by
  have : isReWS ' ' = true := by decide
  simp [countWords, countFrom, countFromW, this]

/-- `InnerText` pads every text node with spaces before concatenating, so the number of words
of the text view is the sum of the nodes' word counts — which is how the builder computes
`NumWords` (and `WordCount` sums `NumWords` over the content blocks). -/
theorem innerText_count (pieces : List (List Char)) :
    countWords (pieces.flatMap (fun d => ' ' :: d ++ [' '])) = (pieces.map countWords).sum := by
  induction pieces with
  | nil => rfl
  | cons d ds ih =>
    simp only [List.flatMap_cons, List.map_cons, List.sum_cons]
    have : (' ' :: d ++ [' ']) ++ List.flatMap (fun d => ' ' :: d ++ [' ']) ds =
        ' ' :: (d ++ ' ' :: List.flatMap (fun d => ' ' :: d ++ [' ']) ds) := by simp
    rw [this, countWords_space_cons, wordcount_additive, ih]

/-- whitespace-only and empty nodes count zero, so skipping them (as the builder does) is sound -/
theorem blank_counts_zero (d : List Char) (h : d.all isReWS = true) : countWords d = 0 := by
  unfold countWords countFrom
  induction d with
  | nil => rfl
  | cons c cs ih =>
    simp only [List.all_cons, Bool.and_eq_true] at h
    simp [countFromW, h.1, ih h.2]

/-- the three counters, their selection and the five regular expressions `Model/Words.lean` spells
out are the ones in the source -/
theorem word_counters_tie :
    Gen.wordCounterBodies = Gen.wordCounterBodiesExpected ∧
    Gen.modelledRegexps.lookup "internal/stringutil.rxFullWordCounter" = some "[\\x{3040}-\\x{A4CF}]" ∧
    Gen.modelledRegexps.lookup "internal/stringutil.rxLetterWordCounter" = some "[\\x{AC00}-\\x{D7AF}]" ∧
    Gen.modelledRegexps.lookup "internal/stringutil.rxWordMatcher1" = some "(\\S*[\\w\\x{00C0}-\\x{1FFF}\\x{AC00}-\\x{D7AF}]\\S*)" ∧
    Gen.modelledRegexps.lookup "internal/stringutil.rxWordMatcher2" = some "([\\x{3040}-\\x{A4CF}])" ∧
    Gen.modelledRegexps.lookup "internal/stringutil.rxWordMatcher3" = some "(\\S*[\\w\\x{00C0}-\\x{1FFF}]\\S*)" := by
  refine ⟨rfl, ?_, ?_, ?_, ?_, ?_⟩ <;> decide +kernel

/-- a text without kana / ideographs and without Hangul is counted by the fast counter, on which
the three counters agree anyway -/
theorem counters_agree_without_cjk (s : List Char) (h1 : s.any isCJK = false) (h2 : s.any isHangul = false) :
    selectCounter s = .fast ∧ countWordsLetter s = countWords s := by
  refine ⟨by simp [selectCounter, h1, h2], ?_⟩
  unfold countWordsLetter countWords countFrom
  have hall : ∀ c ∈ s, isHangul c = false := by
    intro c hc
    cases hh : isHangul c
    · rfl
    · have : s.any isHangul = true := List.any_eq_true.mpr ⟨c, hc, hh⟩
      rw [h2] at this; cases this
  clear h1 h2
  suffices h : ∀ (i w : Bool), countFromW (fun c => isWordChar c || isHangul c) i w s = countFromW isWordChar i w s from h false false
  induction s with
  | nil => intro i w; rfl
  | cons c cs ih =>
    intro i w
    have hc := hall c (by simp)
    have ih' := ih (fun x hx => hall x (by simp [hx]))
    simp only [countFromW, hc, Bool.or_false]
    split
    · rw [ih']
    · rw [ih']

example : countWords "one , two . w3 x_y".toList = 4 := by decide

end Distill.C09
