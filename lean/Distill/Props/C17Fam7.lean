/- C17: the 77 cells of URL family 7 (kernel evaluation of the model on the implementation's
page-pattern answers); one file per family so the families are checked in parallel. -/
import Distill.Props.C17Defs
namespace Distill.C17
open Distill.Gen

theorem fam7_cells : ∀ c ∈ allCells, cellOk fam7 c.1 c.2 = true := by
  decide +kernel

theorem fam7_bare : ∀ n ∈ allN, bareOk fam7 n = true := by
  decide +kernel

end Distill.C17
