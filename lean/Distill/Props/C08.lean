/-
  C08 — Media and tables are retained exactly when they follow retained text
  (the single exception: at most one image/figure promoted as lead image).

  Model: Distill.Model.DocFilters (the three document filters on the flat element list).
  Everything here is for *every* element list, *every* heuristic verdict (the content
  flags on the Text elements) and *every* scoring function.
-/
import Distill.Proofs.DocFilters
import Distill.Proofs.Retainer
import Distill.Gen.Funcs
namespace Distill.C08
open Distill

/-- **Tie to the source**: the loop body of `RelevantElements.Process`, as translated from the
current source on this run, is the step function the model (and `media_iff`) uses. -/
theorem relevantStep_tie (isContent isText inContent : Bool) :
    Gen.relevantStep isContent isText inContent = some (relevantStep isContent isText inContent) := by
  cases isContent <;> cases isText <;> cases inContent <;> rfl

/-- the lead-image threshold in the source is the model's -/
theorem leadMinScore_tie : Gen.imageMinimumAcceptedScore = some leadMinScore.toNat := by rfl

/-- indices mentioned by tag events -/
def evIdx : List REv → List Nat
  | [] => []
  | .item _ :: es => evIdx es
  | .start i :: es => i :: evIdx es
  | .stop j :: es => j :: evIdx es

theorem rrun_updates (s : RSt) (evs : List REv) (s' : RSt) (us : List (Nat × Bool))
    (h : rrun s evs = some (s', us)) :
    ∀ p ∈ us, p.1 ∈ evIdx evs ∨ p.1 ∈ s.stack.map (·.2) := by
  induction evs generalizing s s' us with
  | nil => simp [rrun] at h; obtain ⟨_, h⟩ := h; subst h; simp
  | cons e evs ih =>
    simp only [rrun] at h
    cases hst : rstep s e with
    | none => simp [hst] at h
    | some q =>
      obtain ⟨s1, o1⟩ := q
      simp only [hst] at h
      cases hr : rrun s1 evs with
      | none => simp [hr] at h
      | some r =>
        obtain ⟨s2, o2⟩ := r
        simp only [hr, Option.some.injEq, Prod.mk.injEq] at h
        obtain ⟨_, h⟩ := h; subst h
        have ih' := ih s1 _ o2 hr
        intro p hp
        rcases List.mem_append.mp hp with hp | hp
        · -- produced by this step
          cases e with
          | item c => simp [rstep] at hst; obtain ⟨_, h2⟩ := hst; subst h2; simp at hp
          | start i =>
            simp [rstep] at hst; obtain ⟨_, h2⟩ := hst; subst h2
            simp at hp; subst hp; simp [evIdx]
          | stop j =>
            simp only [rstep] at hst
            split at hst
            · simp at hst
            · rename_i was i rest hs
              simp at hst; obtain ⟨_, h2⟩ := hst; subst h2
              simp at hp
              rcases hp with hp | hp <;> subst hp <;> simp [evIdx, hs]
        · rcases ih' p hp with h1 | h1
          · cases e <;> simp [evIdx, h1]
          · -- index on the stack after the step
            cases e with
            | item c => simp [rstep] at hst; obtain ⟨h2, _⟩ := hst; subst h2; right; simpa using h1
            | start i =>
              simp [rstep] at hst; obtain ⟨h2, _⟩ := hst; subst h2
              simp at h1
              rcases h1 with h1 | h1
              · left; simp [evIdx, h1]
              · right; simpa using h1
            | stop j =>
              simp only [rstep] at hst
              split at hst
              · simp at hst
              · rename_i was i rest hs
                simp at hst; obtain ⟨h2, _⟩ := hst; subst h2
                right; simp [hs]; right; simpa using h1

theorem evIdx_revsFrom (k : Nat) (es : List Elem) :
    ∀ i ∈ evIdx (revsFrom k es), k ≤ i ∧ ∃ e, es[i - k]? = some e ∧ e.kind.isTag = true := by
  induction es generalizing k with
  | nil => simp [revsFrom, evIdx]
  | cons e es ih =>
    intro i hi
    simp only [revsFrom, revOf] at hi
    have step : ∀ i ∈ evIdx (revsFrom (k+1) es), k ≤ i ∧ ∃ e', (e :: es)[i - k]? = some e' ∧ e'.kind.isTag = true := by
      intro i hi
      obtain ⟨h1, e', h2, h3⟩ := ih (k+1) i hi
      refine ⟨by omega, e', ?_, h3⟩
      have : i - k = (i - (k+1)) + 1 := by omega
      rw [this]; simpa using h2
    cases hk : e.kind <;> simp only [hk, evIdx, List.mem_cons] at hi
    all_goals first
      | exact step i hi
      | (rcases hi with hi | hi
         · subst hi; exact ⟨Nat.le_refl _, e, by simp, by simp [hk, Kind.isTag]⟩
         · exact step i hi)

/-- The retainer only ever assigns flags to Tag elements. -/
theorem retainer_touches_tags_only (es out : List Elem) (h : nestedRetainer es = some out) :
    out.length = es.length ∧
    ∀ (i : Nat) (e : Elem), es[i]? = some e → e.kind.isTag = false → out[i]? = some e := by
  unfold nestedRetainer at h
  split at h
  · simp at h
  · rename_i s' us hr
    simp at h; subst h
    refine ⟨applyFlags_length _ _, ?_⟩
    intro i e he hk
    rw [applyFlags_get, he]
    have : finalFlag i us = none := by
      apply finalFlag_none_of_not_mem
      intro p hp heq
      rcases rrun_updates _ _ _ _ hr p hp with h1 | h1
      · obtain ⟨_, e', h2, h3⟩ := evIdx_revsFrom 0 es p.1 h1
        rw [heq] at h2; simp at h2; rw [he] at h2; cases h2
        rw [hk] at h3; cases h3
      · simp at h1
    simp [this]

/-- **C08, main statement.**  Run the three document filters, in the order the extractor
runs them, on any freshly built element list (media and tags not yet content) under any
classifier verdict and any image scores.  Then for every media element (image, figure,
video, embed, data table) its final content flag is: the flag of the nearest preceding
Text — or it is *the* lead image; Text flags are untouched; and the lead image, if any, is
an image or figure. -/
theorem media_iff (score : Nat → Int) (es out : List Elem) (hfresh : FreshMedia es)
    (h : docFilters score es = some out) :
    out.length = es.length ∧
    (∀ (i : Nat) (e : Elem), es[i]? = some e → e.isText = true → out[i]? = some e) ∧
    (∀ (i : Nat) (e : Elem), es[i]? = some e → e.kind.isMedia = true →
      ∃ o, out[i]? = some o ∧ o.kind = e.kind ∧
        o.content = (prevText false es i || leadIndex score (relevantElements es) == some i)) ∧
    (∀ (i : Nat), leadIndex score (relevantElements es) = some i →
      ∃ e, es[i]? = some e ∧ (e.kind = .image ∨ e.kind = .figure)) := by
  unfold docFilters at h
  have hrel : relevantElements es = relevantSpec false es := relevantGo_eq_spec false es hfresh
  obtain ⟨hlen, htag⟩ := retainer_touches_tags_only _ _ h
  have hlead := leadImage_spec score (relevantElements es)
  -- length of the intermediate lists
  have hlen1 : (relevantElements es).length = es.length := by rw [hrel, relevantSpec_length]
  have hlen2 : (leadImage score (relevantElements es)).length = es.length := by
    cases hl : leadIndex score (relevantElements es) with
    | none => rw [hl] at hlead; simp only at hlead; rw [hlead, hlen1]
    | some i => rw [hl] at hlead; simp only at hlead; rw [hlead.1, setFlagAt_length, hlen1]
  -- element i after the first two filters
  have hmid : ∀ (i : Nat) (e : Elem), es[i]? = some e →
      (leadImage score (relevantElements es))[i]? = some
        (let r := if e.isText then e else { e with content := prevText false es i }
         if leadIndex score (relevantElements es) = some i then { r with content := true } else r) := by
    intro i e he
    cases hl : leadIndex score (relevantElements es) with
    | none =>
      rw [hl] at hlead; simp only at hlead
      rw [hlead, hrel, relevantSpec_get, he]; simp
    | some k =>
      rw [hl] at hlead; simp only at hlead
      rw [hlead.1, setFlagAt_get, hrel, relevantSpec_get, he]
      by_cases hk : k = i <;> simp [hk]
  refine ⟨by rw [hlen, hlen2], ?_, ?_, ?_⟩
  · -- Text elements
    intro i e he ht
    have hm := hmid i e he
    have hnotlead : leadIndex score (relevantElements es) ≠ some i := by
      intro hl
      rw [hl] at hlead; simp only at hlead
      obtain ⟨_, e', he', hk, _⟩ := hlead
      rw [hrel, relevantSpec_get, he] at he'
      simp [ht] at he'; subst he'
      simp [Elem.isText] at ht
      rcases hk with hk | hk <;> rw [hk] at ht <;> cases ht
    simp only [ht, if_true, hnotlead, if_false] at hm
    exact htag i e hm (by simp [Elem.isText] at ht; simp [ht, Kind.isTag])
  · -- media
    intro i e he hm
    have hnt : e.isText = false := by
      cases hk : e.kind <;> simp [hk, Kind.isMedia] at hm <;> simp [Elem.isText, hk]
    have hmid' := hmid i e he
    simp only [hnt] at hmid'
    have hk2 : e.kind.isTag = false := by
      cases hk : e.kind <;> simp [hk, Kind.isMedia] at hm <;> simp [Kind.isTag]
    by_cases hl : leadIndex score (relevantElements es) = some i
    · simp only [hl, if_true] at hmid'
      refine ⟨_, htag i _ hmid' (by simpa using hk2), rfl, ?_⟩
      simp [hl]
    · simp only [hl, if_false] at hmid'
      refine ⟨_, htag i _ hmid' (by simpa using hk2), rfl, ?_⟩
      have : (leadIndex score (relevantElements es) == some i) = false := by
        simpa using hl
      simp [this]
  · intro i hl
    rw [hl] at hlead; simp only at hlead
    obtain ⟨_, e', he', hk, _⟩ := hlead
    rw [hrel, relevantSpec_get] at he'
    cases hes : es[i]? with
    | none => rw [hes] at he'; simp at he'
    | some e =>
      rw [hes] at he'; simp at he'
      refine ⟨e, rfl, ?_⟩
      by_cases ht : e.isText = true
      · simp [ht] at he'; subst he'; exact hk
      · simp [ht] at he'; subst he'; simpa using hk

/-- At most one element is promoted: the lead index is a function of the input. -/
theorem lead_at_most_one (score : Nat → Int) (es : List Elem) (i j : Nat)
    (hi : leadIndex score es = some i) (hj : leadIndex score es = some j) : i = j := by
  rw [hi] at hj; exact Option.some.inj hj

/-! ### which candidate can be promoted: the two scorers -/

/-- the lead-image filter, its two scorers, the nested-element retainer and the depth helpers are the
regenerated statement lists the model was written against -/
theorem lead_image_bodies_tie : Gen.leadImageBodies = Gen.leadImageBodiesExpected := by rfl

/-- the only heuristics in use and their maxima -/
theorem lead_heuristics_tie :
    Gen.leadImageBodiesExpected.lookup "internal/filter/docfilter.LeadImageFinder.getLeadHeuristics" =
      some ["return []scorer.ImageScorer{ scorer.NewImageDomDistanceScorer(25, firstContent), scorer.NewImageHasFigureScorer(15), }"] := by
  decide +kernel

/-- the caps never bite: a score is the plain sum of the two parts and at most 40 -/
theorem imageScore_sum (d : Nat) (fig : Bool) :
    imageScore d fig = ((domDistanceScore d + hasFigureScore fig : Nat) : Int) ∧ imageScore d fig ≤ 40 := by
  unfold imageScore domDistanceScore hasFigureScore
  cases fig <;> (repeat' split) <;> simp <;> omega

/-- **The single exception, characterised**: an image or figure can be promoted as lead image exactly
when it is (inside) a `figure` or at most five levels separate the first retained text from their
nearest common ancestor — for every depth. -/
theorem promotable_iff (d : Nat) (fig : Bool) : imageScore d fig > leadMinScore ↔ (fig = true ∨ d < 6) := by
  have key : ∀ n : Nat, ((n : Int) > 13 ↔ n > 13) := by intro n; omega
  unfold imageScore leadMinScore
  rw [key]
  unfold domDistanceScore hasFigureScore
  cases fig
  · by_cases h4 : d < 4
    · simp [h4]; omega
    · by_cases h6 : d < 6
      · simp [h4, h6]
      · by_cases h8 : d < 8
        · simp [h4, h6, h8]
        · simp [h4, h6, h8]
  · by_cases h4 : d < 4
    · simp [h4]
    · by_cases h6 : d < 6
      · simp [h4, h6]
      · by_cases h8 : d < 8
        · simp [h4, h6, h8]
        · simp [h4, h6, h8]

/-- a figure element is always above the threshold, wherever it is -/
theorem figure_always_promotable (d : Nat) : imageScore d true > leadMinScore := (promotable_iff d true).mpr (Or.inl rfl)

example : imageScore 3 false = 25 ∧ imageScore 5 false = 15 ∧ imageScore 7 false = 5 ∧ imageScore 9 true = 15 := by decide

/-! ### non-vacuity: a concrete list that meets the hypotheses and exercises every clause -/

def sample : List Elem :=
  [ { kind := .image, node := 1 },                       -- before any text: dropped, lead candidate
    { kind := .text, content := false, win := [2] },
    { kind := .figure, node := 3 },                      -- after dropped text: lead candidate
    { kind := .text, content := true, win := [4] },
    { kind := .video, node := 5 },                       -- after kept text: kept
    { kind := .tagStart, name := "ul" },
    { kind := .text, content := false, win := [6] },
    { kind := .table, node := 7 },                       -- after dropped text: dropped
    { kind := .tagEnd, name := "ul" } ]

def sampleScore : Nat → Int := fun i => if i = 2 then 40 else 0

example : (docFilters sampleScore sample).map (·.map (·.content)) =
    some [false, false, true, true, true, false, false, false, false] := by decide

example : FreshMedia sample := by
  intro e he; simp [sample] at he
  rcases he with h | h | h | h | h | h | h | h | h <;> subst h <;> simp [Elem.isText]

end Distill.C08
