/-
  C16 — Pagination links are real, same-site, fetchable URLs.

  Page-number algorithm: whatever `FindPagination` returns is drawn from the URLs the DOM scan
  put into the groups of adjacent numbers (every one of them the normalised href of an anchor
  that passed the host test, or a javascript:/empty position holder) or is the document URL the
  detection inserts as first page; it is never a javascript: position holder, and the previous
  page is never the page itself.

  Prev/next algorithm: the result is the href of a candidate (an anchor that passed the
  allowed-prefix test) that is not banned and scored at least 50, and no other eligible
  candidate scored higher.
-/
import Distill.Proofs.ScanGroups
import Distill.Props.LinkScoreProps
import Distill.Props.AbsURLProps
import Distill.Proofs.Pagination
import Distill.Proofs.PageGroups
import Distill.Gen.Funcs
namespace Distill.C16
open Distill.Pg

/-- every URL the DOM scan recorded -/
abbrev groupURLs (gs : List PGroup) : List String := groupURLs' gs

/-- where a URL in the detection result can come from -/
def Src (A : Atoms) (gs : List PGroup) (u : String) : Prop :=
  u ∈ groupURLs gs ∨ u = A.docURL ∨ u = trimPathSlash A.docURL

/-- the page list of the detected parameter only holds scanned URLs, the document URL, or "" -/
theorem detect_pages_src (A : Atoms) (gs : List PGroup) (arg : String) :
    ∀ p ∈ (detectParamInfo A gs arg).pages, p.url = "" ∨ Src A gs p.url :=
  Pg.detect_pages_src A gs arg

theorem detect_next_src (A : Atoms) (gs : List PGroup) (arg : String) :
    (detectParamInfo A gs arg).next = "" ∨ Src A gs (detectParamInfo A gs arg).next :=
  Pg.detect_next_src A gs arg

/-- **Page-number algorithm.**  NextPage and PrevPage are empty or a scanned URL / the document
URL, never a javascript: position holder; PrevPage is never the page itself. -/
theorem number_links (A : Atoms) (gs : List PGroup) (arg s1 s2 : String) :
    let r := numberPrevNext (detectParamInfo A gs arg) s1 s2
    (r.1 = "" ∨ (isJs r.1 = false ∧ Src A gs r.1)) ∧
    (r.2 = "" ∨ (isJs r.2 = false ∧ Src A gs r.2 ∧ r.2 ≠ s1 ∧ r.2 ≠ s2)) :=
  Pg.number_links A gs arg s1 s2

/-! ### from the DOM to the result of the page-number algorithm -/

/-- every URL in the groups the DOM scan leaves is empty or the URL `getPageInfoAndText` gives for an
anchor of the tree -/
theorem scan_group_urls (S : Scan.A) (root : Node) (gs : List PGroup) (h : Scan.scanGroups S root = some gs) :
    ∀ u ∈ groupURLs gs, u = "" ∨ ∃ id n, S.pageInfo id = some (n, u) := by
  unfold Scan.scanGroups at h
  simp only [Option.map_eq_some_iff] at h
  obtain ⟨ops, hops, rfl⟩ := h
  intro u hu
  simp only [groupURLs, groupURLs', List.mem_flatMap, List.mem_map] at hu
  obtain ⟨g, hg, q, hq, rfl⟩ := hu
  have hadd := Pg.runOps_groups_from_added ops g hg q hq
  unfold Pg.added at hadd
  simp only [List.mem_filterMap] at hadd
  obtain ⟨o, ho, hoq⟩ := hadd
  have hok := Scan.scanOps_provenance S root ops hops o ho
  cases o with
  | add p =>
    simp only [Option.some.injEq] at hoq
    subst hoq
    rcases hok with h0 | ⟨id, hid⟩
    · exact Or.inl h0
    · exact Or.inr ⟨id, p.num, hid⟩
  | addGroup => cases hoq
  | cleanUp => cases hoq

/-- **Page-number algorithm, from the DOM to the result**: for every tree, with the scan, the groups,
the detection and the final selection all in the model, NextPage is empty or — never a `javascript:`
holder — the URL `getPageInfoAndText` gives for an anchor of the tree (by `page_info_provenance`: the
cleaned form of an href on the page's host), or the document URL the detection may insert as first
page. -/
theorem page_number_next_from_dom (S : Scan.A) (root : Node) (gs : List PGroup) (h : Scan.scanGroups S root = some gs)
    (A : Atoms) (arg s1 s2 : String) :
    let r := numberPrevNext (detectParamInfo A gs arg) s1 s2
    r.1 = "" ∨ (isJs r.1 = false ∧
      ((∃ id n, S.pageInfo id = some (n, r.1)) ∨ r.1 = A.docURL ∨ r.1 = trimPathSlash A.docURL)) := by
  intro r
  rcases (number_links A gs arg s1 s2).1 with h0 | ⟨hj, hs⟩
  · exact Or.inl h0
  · by_cases he : r.1 = ""
    · exact Or.inl he
    · right
      refine ⟨hj, ?_⟩
      rcases hs with hs | hs | hs
      · rcases scan_group_urls S root gs h _ hs with h1 | h1
        · exact absurd h1 he
        · exact Or.inl h1
      · exact Or.inr (Or.inl hs)
      · exact Or.inr (Or.inr hs)

/-- … and likewise PrevPage, which in addition is never the page itself -/
theorem page_number_prev_from_dom (S : Scan.A) (root : Node) (gs : List PGroup) (h : Scan.scanGroups S root = some gs)
    (A : Atoms) (arg s1 s2 : String) :
    let r := numberPrevNext (detectParamInfo A gs arg) s1 s2
    r.2 = "" ∨ (isJs r.2 = false ∧ r.2 ≠ s1 ∧ r.2 ≠ s2 ∧
      ((∃ id n, S.pageInfo id = some (n, r.2)) ∨ r.2 = A.docURL ∨ r.2 = trimPathSlash A.docURL)) := by
  intro r
  rcases (number_links A gs arg s1 s2).2 with h0 | ⟨hj, hs, hn1, hn2⟩
  · exact Or.inl h0
  · by_cases he : r.2 = ""
    · exact Or.inl he
    · right
      refine ⟨hj, hn1, hn2, ?_⟩
      rcases hs with hs | hs | hs
      · rcases scan_group_urls S root gs h _ hs with h1 | h1
        · exact absurd h1 he
        · exact Or.inl h1
      · exact Or.inr (Or.inl hs)
      · exact Or.inr (Or.inr hs)

/-- when the document URL the detection works with (and may insert as first page) is one of the
two spellings `FindPagination` compares with — `s2`, the escaped form without user info, is
how `DetectParamInfo` spells it — PrevPage is empty or a scanned URL, never the page itself -/
theorem number_prev_is_anchor (A : Atoms) (gs : List PGroup) (arg s1 s2 : String)
    (h1 : A.docURL = s1 ∨ A.docURL = s2) (h2 : trimPathSlash A.docURL = s1 ∨ trimPathSlash A.docURL = s2) :
    let r := numberPrevNext (detectParamInfo A gs arg) s1 s2
    r.2 = "" ∨ (isJs r.2 = false ∧ r.2 ∈ groupURLs gs) := by
  intro r
  have h := (number_links A gs arg s1 s2).2
  rcases h with h | ⟨hj, hs, hne1, hne2⟩
  · exact Or.inl h
  · rcases hs with hs | hs | hs
    · exact Or.inr ⟨hj, hs⟩
    · rcases h1 with h1 | h1
      · exact absurd (hs.trans h1) hne1
      · exact absurd (hs.trans h1) hne2
    · rcases h2 with h2 | h2
      · exact absurd (hs.trans h2) hne1
      · exact absurd (hs.trans h2) hne2

/-- **Prev/next algorithm.**  The result is empty or the href of an unbanned candidate with
score ≥ 50. -/
theorem prevnext_is_candidate (banned : List String) (cs : List Cand) :
    prevNextResult banned cs = "" ∨
    ∃ c ∈ cs, c.href = prevNextResult banned cs ∧ c.score ≥ 50 ∧ c.href ∉ banned :=
  Pg.prevnext_is_candidate banned cs

/-- … and no eligible candidate scored higher -/
theorem prevnext_max (banned : List String) (cs : List Cand) (c' : Cand)
    (hm : c' ∈ cs) (hb : c'.href ∉ banned) (hs : c'.score ≥ 50) :
    ∃ c ∈ cs, c.href = prevNextResult banned cs ∧ c'.score ≤ c.score :=
  Pg.prevnext_max banned cs c' hm hb hs

/-- every candidate passed the allowed-prefix test (that is how it became a candidate), so
the result did -/
theorem prevnext_allowed (allowed : String → Prop) (banned : List String) (cs : List Cand)
    (h : ∀ c ∈ cs, allowed c.href) :
    prevNextResult banned cs = "" ∨ allowed (prevNextResult banned cs) := by
  rcases prevnext_is_candidate banned cs with h0 | ⟨c, hc, he, _, _⟩
  · exact Or.inl h0
  · exact Or.inr (he ▸ h c hc)

/-- **The groups the detection reads.**  Whatever sequence of AddGroup / AddPageInfo calls the
DOM scan makes (CleanUp last), every group it leaves is non-empty and strictly monotonic in
the direction it records (a single entry records none) — the shape `DetectParamInfo` relies
on when it reverses descending groups and indexes the ascending numbers. -/
theorem scan_groups_ok (ops : List GOp) (h : NoCleanUp ops) :
    ∀ g ∈ (runOps (ops ++ [GOp.cleanUp])).groups, GroupOk g ∧ g.list ≠ [] :=
  Pg.scan_groups_ok ops h

/-- … and while it is being built, the remembered previous entry is the last entry of the
group being filled, so `AddPageInfo`'s read of `prevPageInfo` is never a nil dereference -/
theorem scan_prev_never_nil (ops : List GOp) (h : NoCleanUp ops) : Inv (runOps ops) :=
  Pg.runOps_inv ops h

example : (runOps [.addGroup, .add ⟨3, "a"⟩, .add ⟨2, ""⟩, .add ⟨2, "b"⟩, .add ⟨5, "c"⟩, .cleanUp]).groups.map
      (fun g => (g.list, g.deltaSign)) =
    [([⟨3, "a"⟩, ⟨2, ""⟩], -1), ([⟨2, "b"⟩, ⟨5, "c"⟩], 1)] := by decide +kernel

/-- **Tie.**  The scanning half of `PageNumberFinder.FindOutlink` (which hook
`VerifNumberGroups` repeats to show the groups before detection rewrites them) and the two
calls of `PrevNextFinder.FindPagination` are what they were when the model was written. -/
theorem scan_tie :
    Gen.numberFindOutlinkBody = Gen.numberFindOutlinkBodyExpected ∧
    Gen.prevNextFindPaginationBody = Gen.prevNextFindPaginationBodyExpected := by
  decide +kernel

/-! non-vacuity: a pager `[1] 2 [3] [4]` on page 2 -/
def exURL (i : Nat) : String := "http://e.com/a?page=" ++ toString i
def exKey : String := "http://e.com/a?page=[*!]"
def exAtoms : Atoms :=
  { urls := [1, 3, 4].map (fun i => { url := exURL i, parses := true,
                                       query := [{ key := exKey, value := i, validFor := true }], path := [] }),
    isPaging := fun _ _ => true, docURL := exURL 2, docParses := true }
def exGroups : List PGroup :=
  [{ list := [⟨1, exURL 1⟩, ⟨2, ""⟩, ⟨3, exURL 3⟩, ⟨4, exURL 4⟩], deltaSign := 1 }]

example : numberPrevNext (detectParamInfo exAtoms exGroups (exURL 2)) (exURL 2) (exURL 2) = (exURL 3, exURL 1) := by
  decide +kernel

example : prevNextResult ["x"] [⟨"x", 90⟩, ⟨"a", 40⟩, ⟨"b", 75⟩, ⟨"c", 75⟩] = "b" := by decide +kernel

end Distill.C16
