/-
  C18 — Tables are classified by the documented rule cascade.

  `Gen.classify` is regenerated from `tableclass.Classifier.Classify` on every run (ordered
  guards with the thresholds as they stand in the source); `classifySpec` is the cascade as
  the property words it.  `cascade_eq` says they agree on *every* feature vector.
-/
import Distill.Model.TableClass
import Distill.Gen.Funcs
namespace Distill.C18
open Distill

/-- the generated tables are the ones the spec names -/
theorem role_tables : Gen.ariaRoles = ariaLandmarkRoles ∧ Gen.ariaTableRoles = ariaGridRoles := by
  constructor <;> rfl

theorem goReturn_cons (f : TableFeatures) (r : TRule) (rs : List TRule) :
    goReturn (firstRule f (r :: rs)) =
      if r.guard f then goReturn (r.verdict, r.reason) else goReturn (firstRule f rs) := by
  simp only [firstRule]; split <;> rfl

/-- **C18 main statement**: for every feature vector the translated source cascade returns
exactly what the documented cascade returns (verdict and reason). -/
theorem cascade_eq (f : TableFeatures) : Gen.classify f = some (some (goReturn (classifySpec f))) := by
  simp only [Gen.classify, classifySpec, tableRules, goReturn_cons, role_tables.1, role_tables.2]
  simp only [firstRule, goReturn]
  simp only [apply_ite some]

/-- the cascade is first-match: a rule decides exactly when its guard holds and no earlier
guard does (this is what pins the *order*) -/
theorem firstRule_spec (f : TableFeatures) (pre : List TRule) (r : TRule) (post : List TRule)
    (hpre : ∀ q ∈ pre, q.guard f = false) (hr : r.guard f = true) :
    firstRule f (pre ++ r :: post) = (r.verdict, r.reason) := by
  induction pre with
  | nil => simp [firstRule, hr]
  | cons q qs ih =>
    have hq := hpre q List.mem_cons_self
    simp only [List.cons_append, firstRule, hq]
    exact ih (fun x hx => hpre x (List.mem_cons_of_mem _ hx))

theorem default_data (f : TableFeatures) (h : ∀ q ∈ tableRules, q.guard f = false) :
    classifySpec f = (.data, "Default") := by
  unfold classifySpec
  generalize tableRules = rs at h
  induction rs with
  | nil => rfl
  | cons q qs ih =>
    simp only [firstRule, h q List.mem_cons_self]
    exact ih (fun x hx => h x (List.mem_cons_of_mem _ hx))

/-- the same table is classified the same way wherever it occurs: the context enters only
through the editable-ancestor test -/
theorem context_free (anc₁ anc₂ : List (String × String)) (vt : Nat → Bool) (t : Node)
    (h : (anc₁.any fun p => p.1 == "input" || asciiLower p.2 == "true") =
         (anc₂.any fun p => p.1 == "input" || asciiLower p.2 == "true")) :
    tableFeatures anc₁ vt t = tableFeatures anc₂ vt t := by
  unfold tableFeatures
  simp only [h]

/-! ### boundary lemmas (thresholds as literals in the translated source) -/

def plain : TableFeatures :=
  { insideEditable := false, role := "", descRole := false, datatable := "", nested := false,
    rows := 2, cols := 2, captionValid := false, thead := false, tfoot := false, headerTag := false,
    cellAttr := false, cellLoneAbbr := false, summary := false, cells := 4, objectTag := false }

example : Gen.classify { plain with cols := 4, cells := 8 } = some (some ("Layout", "LessEq10Cells")) := by decide
example : Gen.classify { plain with cols := 5, cells := 10 } = some (some ("Data", "MoreEq5Cols")) := by decide
example : Gen.classify { plain with rows := 19, cells := 38 } = some (some ("Data", "Default")) := by decide
example : Gen.classify { plain with rows := 20, cells := 40 } = some (some ("Data", "MoreEq20Rows")) := by decide
example : Gen.classify { plain with rows := 5, cells := 10 } = some (some ("Layout", "LessEq10Cells")) := by decide
example : Gen.classify { plain with rows := 6, cols := 2, cells := 11 } = some (some ("Data", "Default")) := by decide
example : Gen.classify { plain with rows := 1, thead := true } = some (some ("Layout", "LessEq1Row")) := by decide
example : Gen.classify { plain with cols := 1, summary := true } = some (some ("Layout", "LessEq1Col")) := by decide
example : Gen.classify { plain with datatable := "0", descRole := true } = some (some ("Data", "RoleDescendant")) := by decide
example : Gen.classify { plain with datatable := "0", role := "grid" } = some (some ("Data", "RoleTable")) := by decide
example : Gen.classify { plain with insideEditable := true, role := "grid" } = some (some ("Layout", "InsideEditableArea")) := by decide
example : Gen.classify { plain with cells := 12, rows := 6, objectTag := true } = some (some ("Layout", "EmbedObjectAppletIframe")) := by decide

/-! ### counting rows and columns -/

/-- the counting and text helpers of the classifier as they stand (every `tr` of the table is
visited; the column count is the maximum over all of them) -/
theorem table_count_bodies_tie : Gen.tableCountBodies = Gen.tableCountBodiesExpected := by rfl

theorem maxInt_foldl_ge (xs : List Int) : ∀ a, a ≤ xs.foldl (fun a b => if b > a then b else a) a := by
  induction xs with
  | nil => intro a; exact Int.le_refl a
  | cons x xs ih =>
    intro a
    simp only [List.foldl_cons]
    split
    · exact Int.le_trans (Int.le_of_lt ‹x > a›) (ih x)
    · exact ih a

theorem maxInt_foldl_mem (xs : List Int) : ∀ a, ∀ x ∈ xs, x ≤ xs.foldl (fun a b => if b > a then b else a) a := by
  induction xs with
  | nil => intro a x hx; simp at hx
  | cons y ys ih =>
    intro a x hx
    simp only [List.foldl_cons]
    simp only [List.mem_cons] at hx
    rcases hx with rfl | hx
    · split
      · exact maxInt_foldl_ge ys x
      · rename_i h
        exact Int.le_trans (by omega) (maxInt_foldl_ge ys a)
    · exact ih _ x hx

/-- **The column count is the maximum over ALL rows**: no row of the table, wherever it stands and
however many rows there are, has more columns than the count the cascade compares with its
thresholds. -/
theorem cols_cover_every_row (xs : List Int) (x : Int) (hx : x ∈ xs) : x ≤ maxInt xs := by
  unfold maxInt
  exact maxInt_foldl_mem xs 0 x hx

/-- … and the order of the rows does not matter for a table whose widest row is in the list twice
over: moving a row changes nothing about what the maximum bounds -/
theorem cols_cover_append (xs ys : List Int) (x : Int) (hx : x ∈ ys) : x ≤ maxInt (xs ++ ys) :=
  cols_cover_every_row (xs ++ ys) x (by simp [hx])

example : maxInt [1, 1, 1, 3, 1] = 3 ∧ maxInt [] = 0 := by decide

end Distill.C18
