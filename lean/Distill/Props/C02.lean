/-
  C02 — Distilled text is an ordered excerpt of the source; nothing invented or moved.

  Proved here, for every tree, every converter mode, every answer of the regexps /
  extractors / classifiers, and every selection ("verdict") of Text elements:
  the nodes of the selected Text elements, concatenated in element order, are a sublist of
  the source's text and br nodes in document order (so: only source nodes, each at most once,
  in source order).  Rendering of a Text element (tree clone of its window) and of tables /
  figures is covered by the black-box oracle and the render model (see DESIGN.md).
-/
import Distill.Props.RenderProps
import Distill.Proofs.Convert
import Distill.Proofs.Compose
import Distill.Proofs.Preorder
import Distill.Props.FiltersProps
namespace Distill.C02
open Distill

theorem filter_flatten_sublist (keep : TextEl → Bool) (ts : List TextEl) :
    (((ts.filter keep).map (·.win)).flatten).Sublist ((ts.map (·.win)).flatten) := by
  induction ts with
  | nil => simp
  | cons t r ih =>
    simp only [List.filter_cons]
    split
    · simp only [List.map_cons, List.flatten_cons]
      exact List.Sublist.append (List.Sublist.refl _) ih
    · simp only [List.map_cons, List.flatten_cons]
      exact ih.trans (List.sublist_append_right _ _)

/-- **C02 (element level).** -/
theorem excerpt (cfg : CCfg) (A : CAtoms) (anc : List String) (hp : Bool) (n : Node) (keep : TextEl → Bool) :
    ((((textsOf (buildDoc (convert cfg A anc hp n))).filter keep).map (·.win)).flatten).Sublist n.brTextIds := by
  have h1 := filter_flatten_sublist keep (textsOf (buildDoc (convert cfg A anc hp n)))
  have h2 := (builder_windows (convert cfg A anc hp n)).2
  have h3 := convertNode_nodeIds_sublist cfg A anc hp n
  exact (h1.trans h2).trans h3

/-- windows are non-empty, strictly increasing and pairwise disjoint slices: no node is in two
Text elements (for every event sequence whatsoever, not only converter output) -/
theorem windows_partition (evs : List BEv) : Slices (nodeIds evs) 0 (textsOf (buildDoc evs)) :=
  (builder_windows evs).1

/-- the text nodes handed to the builder are source text nodes, in source order -/
theorem handed_text_is_source_text (cfg : CCfg) (A : CAtoms) (anc : List String) (hp : Bool) (n : Node) :
    (textEvIds (convert cfg A anc hp n)).Sublist n.textIds :=
  convert_sublist cfg A anc hp n

/-- **C02 (selection and rendering composed).** Whatever Text elements the classifier keeps,
the text nodes their renderings hold (each rendering holds `textIds.filter (· ∈ window)`:
`RenderProps.text_render_excerpt`), concatenated in element order as `Document.GenerateOutput`
does (`RenderProps.doc_output_spec`), are a sublist of the source's text nodes — only source
text, every node at most once, in source order.  The hypothesis says that node ids are distinct
(they are pre-order positions). -/
theorem rendered_excerpt (cfg : CCfg) (A : CAtoms) (anc : List String) (hp : Bool) (n : Node)
    (keep : TextEl → Bool) (hn : n.brTextIds.Nodup) :
    ((((textsOf (buildDoc (convert cfg A anc hp n))).filter keep).map
        (fun t => n.textIds.filter (fun i => t.win.contains i))).flatten).Sublist n.textIds :=
  rendered_concat_excerpt cfg A anc hp n keep hn (textIds_sublist_brTextIds n)

/-- the same without hypothesis, for every tree numbered in document order (as the harness and
the correspondence number them) -/
theorem rendered_excerpt_preorder (cfg : CCfg) (A : CAtoms) (anc : List String) (hp : Bool) (n : Node) (k : Nat)
    (keep : TextEl → Bool) :
    ((((textsOf (buildDoc (convert cfg A anc hp (relabel k n)))).filter keep).map
        (fun t => (relabel k n).textIds.filter (fun i => t.win.contains i))).flatten).Sublist (relabel k n).textIds :=
  rendered_excerpt cfg A anc hp (relabel k n) keep (relabel_brTextIds_nodup k n)

/-! non-vacuity: a page with a paragraph, a hidden div and a list; windows [1,2,4] and [9] -/
def A0 : CAtoms :=
  { styleDisplay := fun i => if i = 5 then "none" else "", visHidden := fun _ => false, byline := fun _ => false,
    rxUnlikely := fun _ => false, rxMaybe := fun _ => false, embed := fun _ => .none, dataTable := fun _ => false,
    blank := fun _ => false, words := fun _ => 1 }
def page : Node :=
  .elem 0 "body" [] [
    .elem 1 "p" [] [.text 2 "a", .elem 3 "b" [] [.text 4 "b"]],
    .elem 5 "div" [{ key := "style", val := "display:none" }] [.text 6 "hidden"],
    .elem 7 "ul" [] [.elem 8 "li" [] [.text 9 "c"]] ]
example : (textsOf (buildDoc (convert { skipUnlikely := true } A0 [] false page))).map (·.win) = [[2, 4], [9]] := by
  decide +kernel
example : page.brTextIds.Nodup ∧ page.brTextIds = [2, 4, 6, 9] := by decide +kernel

end Distill.C02
