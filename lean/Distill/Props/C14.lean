/-
  C14 — Metadata follows the documented precedence and honours opt-out.
-/
import Distill.Proofs.IEReader
import Distill.Model.OpenGraph
import Distill.Model.MarkupPage
import Distill.Gen.Tables
import Distill.Gen.Funcs
import Distill.Model.Markup
import Distill.Gen.Funcs
namespace Distill.C14
open Distill

/-! ### ties: what the generated facts say about the current source -/

/-- OpenGraph (conditionally), then schema.org, then IE Reading View -/
theorem accessor_order_tie : Gen.accessorOrder =
    [("ogParser", "err == nil && ogParser != nil"),
     ("schemaorg.NewParser(root, timingInfo)", ""),
     ("iereader.NewParser(root)", "")] := by rfl

/-- every getter asks the accessors in list order and takes the first acceptable answer -/
theorem getter_shapes_tie : Gen.getterShapes =
    [("Title", "Title", "first-nonempty-string"), ("Type", "Type", "first-nonempty-string"),
     ("URL", "URL", "first-nonempty-string"), ("Images", "Images", "first-nonempty-list"),
     ("Description", "Description", "first-nonempty-string"), ("Publisher", "Publisher", "first-nonempty-string"),
     ("Copyright", "Copyright", "first-nonempty-string"), ("Author", "Author", "first-nonempty-string"),
     ("Article", "Article", "first-non-nil"), ("OptOut", "OptOut", "any-true")] := by rfl

/-- `MarkupInfo()` tests opt-out first, fills each scalar field from its own getter, and copies
the article / images field by field from the single chosen article / image list -/
theorem markup_info_tie :
    Gen.markupOptOutFirst = true ∧
    Gen.markupInfoFields = [("Title", "ps.Title()"), ("Type", "ps.Type()"), ("URL", "ps.URL()"),
      ("Description", "ps.Description()"), ("Publisher", "ps.Publisher()"), ("Copyright", "ps.Copyright()"),
      ("Author", "ps.Author()")] ∧
    Gen.markupArticleFields = [("PublishedTime", "article.PublishedTime"), ("ModifiedTime", "article.ModifiedTime"),
      ("ExpirationTime", "article.ExpirationTime"), ("Section", "article.Section"),
      ("Authors", "append([]string{}, article.Authors...)")] ∧
    Gen.markupImageFields = [("URL", "image.URL"), ("SecureURL", "image.SecureURL"), ("Type", "image.Type"),
      ("Caption", "image.Caption"), ("Width", "image.Width"), ("Height", "image.Height")] := by
  refine ⟨rfl, rfl, rfl, rfl⟩

/-- **OpenGraph gate** (about the switch regenerated from `opengraph.NewParser`): the parser is
usable exactly when title, type, url and at least one image are all present -/
theorem og_gate (a : OgAtoms) :
    Gen.ogGate a = some (decide (a.title ≠ "" ∧ a.type ≠ "" ∧ a.url ≠ "" ∧ a.nImages ≠ 0)) := by
  simp only [Gen.ogGate]
  by_cases h1 : a.title = "" <;> by_cases h2 : a.type = "" <;> by_cases h3 : a.url = "" <;>
    by_cases h4 : a.nImages = 0 <;> simp [h1, h2, h3, h4]

/-! ### precedence -/

/-- **Field precedence.** A field comes from the first source, in accessor order, that
provides a non-empty value … -/
theorem field_precedence (f : MSource → String) (pre : List MSource) (s : MSource) (post : List MSource)
    (hpre : ∀ p ∈ pre, f p = "") (hs : f s ≠ "") :
    firstNonEmpty f (pre ++ s :: post) = f s := by
  induction pre with
  | nil => simp [firstNonEmpty, hs]
  | cons p ps ih =>
    have hp := hpre p List.mem_cons_self
    simp only [List.cons_append, firstNonEmpty, hp]
    simpa using ih (fun q hq => hpre q (List.mem_cons_of_mem _ hq))

/-- … and is empty if no source provides it. -/
theorem field_empty (f : MSource → String) (srcs : List MSource) (h : ∀ p ∈ srcs, f p = "") :
    firstNonEmpty f srcs = "" := by
  induction srcs with
  | nil => rfl
  | cons p ps ih =>
    simp only [firstNonEmpty, h p List.mem_cons_self]
    simpa using ih (fun q hq => h q (List.mem_cons_of_mem _ hq))

/-- the combined record uses exactly these getters (no field mixes sources in any other way) -/
theorem combine_fields (srcs : List MSource) (h : srcs.any (·.optOut) = false) :
    (combine srcs).title = firstNonEmpty (·.title) srcs ∧
    (combine srcs).type = firstNonEmpty (·.type) srcs ∧
    (combine srcs).url = firstNonEmpty (·.url) srcs ∧
    (combine srcs).description = firstNonEmpty (·.description) srcs ∧
    (combine srcs).publisher = firstNonEmpty (·.publisher) srcs ∧
    (combine srcs).copyright = firstNonEmpty (·.copyright) srcs ∧
    (combine srcs).author = firstNonEmpty (·.author) srcs := by
  simp [combine, h]

/-- **Article taken wholesale**: the article sub-record is, as a whole, the article of the
first source that has one (so no field of it can come from another source); the empty
record when no source has one. -/
theorem article_wholesale (srcs : List MSource) (h : srcs.any (·.optOut) = false) :
    (∃ pre s post a, srcs = pre ++ s :: post ∧ (∀ p ∈ pre, p.article = none) ∧ s.article = some a ∧
        (combine srcs).article = a) ∨
    ((∀ p ∈ srcs, p.article = none) ∧ (combine srcs).article = {}) := by
  have key : ∀ l : List MSource,
      (∃ pre s post a, l = pre ++ s :: post ∧ (∀ p ∈ pre, p.article = none) ∧ s.article = some a ∧
        firstArticle l = some a) ∨ ((∀ p ∈ l, p.article = none) ∧ firstArticle l = none) := by
    intro l
    induction l with
    | nil => right; simp [firstArticle]
    | cons x xs ih =>
      cases hx : x.article with
      | some a => left; exact ⟨[], x, xs, a, rfl, by simp, hx, by simp [firstArticle, hx]⟩
      | none =>
        rcases ih with ⟨pre, s, post, a, h1, h2, h3, h4⟩ | ⟨h1, h2⟩
        · left
          refine ⟨x :: pre, s, post, a, by simp [h1], ?_, h3, by simp [firstArticle, hx, h4]⟩
          intro p hp
          rcases List.mem_cons.mp hp with hp | hp
          · subst hp; exact hx
          · exact h2 p hp
        · right
          refine ⟨?_, by simp [firstArticle, hx, h2]⟩
          intro p hp
          rcases List.mem_cons.mp hp with hp | hp
          · subst hp; exact hx
          · exact h1 p hp
  rcases key srcs with ⟨pre, s, post, a, h1, h2, h3, h4⟩ | ⟨h1, h2⟩
  · left; exact ⟨pre, s, post, a, h1, h2, h3, by simp [combine, h, h4]⟩
  · right; exact ⟨h1, by simp [combine, h, h2]⟩

/-- **Opt-out**: if any source reports opt-out the whole record is empty. -/
theorem optout_empty (srcs : List MSource) (h : ∃ s ∈ srcs, s.optOut = true) : combine srcs = {} := by
  have : srcs.any (·.optOut) = true := by
    obtain ⟨s, hs, ho⟩ := h
    exact List.any_eq_true.mpr ⟨s, hs, ho⟩
  simp [combine, this]

/-- OpenGraph takes part only when usable; schema.org always precedes IE Reading View -/
theorem sources_order (u : Bool) (og schema ie : MSource) :
    sources u og schema ie = if u then [og, schema, ie] else [schema, ie] := by
  cases u <;> rfl

/-! ### the IE Reading View accessor, from the document tree (model: Distill.Model.IEReader,
stage `iereader`) -/

theorem ie_reader_tie : Gen.ieReaderBodies = Gen.ieReaderBodiesExpected := by rfl

/-- every `meta` element anywhere below the document element — `head` or `body`, however deep —
is among the ones the accessor scans -/
theorem optout_tag_anywhere (root e : Node) (h : IE.OccursL e root.kids) (ht : e.tag = "meta") :
    e ∈ IE.withTag root "meta" :=
  IE.meta_anywhere_is_scanned root e h ht

/-- **Opt-out, from the page**: when the first scanned `meta` named IE_RM_OFF (any letter case)
says `true` (any letter case), `MarkupInfo` is entirely empty — whatever OpenGraph and schema.org
provide. -/
theorem page_optout_empties (A : IE.Atoms) (root m : Node) (before after : List Node) (others : List MSource)
    (hsplit : IE.withTag root "meta" = before ++ m :: after)
    (hbefore : ∀ x ∈ before, IE.isOptOutName A x = false) (hm : IE.isOptOutName A m = true)
    (htrue : IE.saysTrue A m = true) :
    combine (others ++ [IE.source A root]) = {} := by
  apply optout_empty
  refine ⟨IE.source A root, by simp, ?_⟩
  rw [IE.source_optOut, IE.optOut_first_decides A root m before after hsplit hbefore hm, htrue]

/-- and a page without such a tag does not opt out through this accessor -/
theorem page_without_tag_no_optout (A : IE.Atoms) (root : Node)
    (h : ∀ x ∈ IE.withTag root "meta", IE.isOptOutName A x = false) : (IE.source A root).optOut = false := by
  rw [IE.source_optOut]; exact IE.optOut_none A root h

/-! ### the OpenGraph parser, from the document tree (model: Distill.Model.OpenGraph, stage
`opengraph`) -/

theorem open_graph_tie : Gen.openGraphBodies = Gen.openGraphBodiesExpected := by rfl

/-- **The gate, from the page**: the parsed record is usable exactly when the regenerated switch of
`NewParser` lets it through — title, type, url non-empty and at least one verified image. -/
theorem page_og_gate (lower : String → String) (P : OG.Prefixes) (root : Node) :
    Gen.ogGate { title := (OG.parse lower P root).st.get "title", type := (OG.parse lower P root).st.get "type",
                 url := (OG.parse lower P root).st.get "url", nImages := (OG.parse lower P root).images.length } =
      some (OG.usable (OG.parse lower P root)) := by
  simp only [Gen.ogGate, OG.usable]
  generalize OG.parse lower P root = p
  cases hi : p.images with
  | nil => simp
  | cons x xs =>
    have h0 : ((↑xs.length + 1 : Int) == 0) = false := by
      have : (↑xs.length + 1 : Int) ≠ 0 := by omega
      simpa using this
    simp [h0, bne]

/-- a later `meta` with the same property overwrites the earlier value (the property table is a map) -/
theorem og_last_value_wins (s : OG.St) (k v : String) : (s.set k v).get k = v := by
  simp [OG.St.get, OG.St.set, List.lookup]

/-- **The article gate looks again at every tag**: an `article:*` tag (other than `author`) that
comes when the table holds `og:type = article` sets its field — whether or not earlier `article:*`
tags, met before the type, were dropped (`s.isArticle` is arbitrary here). A parser that decides once,
at the first `article:*` tag, does not satisfy this. -/
theorem article_tag_after_type_counts (lower : String → String) (P : OG.Prefixes) (content property : String)
    (s : OG.St) (ip : OG.Important) (hip : ip.type = "article")
    (hpre : OG.hasPrefix property (P.get ip.pfx ++ ":" ++ ip.name) = true)
    (hty : lower (s.get "type") = "article")
    (hna : OG.dropPrefix property (P.get ip.pfx ++ ":") ≠ "author") :
    let r := (OG.stepImportant lower P content (s, property) ip).1
    r.get ip.name = content ∧ r.isArticle = true := by
  have hget : ∀ (b : Bool) , ({ s with isArticle := b } : OG.St).get "type" = s.get "type" := fun _ => rfl
  have h1 : (ip.type == "image") = false := by rw [hip]; decide
  have h2 : (ip.type == "profile") = false := by rw [hip]; decide
  have h3 : (ip.type == "article") = true := by rw [hip]; decide
  have h4 : (OG.dropPrefix property (P.get ip.pfx ++ ":") == "author") = false := by
    rw [beq_eq_false_iff_ne]; exact hna
  simp only [OG.stepImportant, hpre, h1, h2, h3, h4, hty, Bool.not_true, Bool.false_eq_true, if_false, if_true,
    beq_self_eq_true]
  rcases Bool.eq_false_or_eq_true s.isArticle with h | h <;>
    simp [h, OG.St.get, OG.St.set, List.lookup]

/-- … and one that comes while the table holds no `article` type is dropped: table and authors stay -/
theorem article_tag_before_type_dropped (lower : String → String) (P : OG.Prefixes) (content property : String)
    (s : OG.St) (ip : OG.Important) (hip : ip.type = "article") (hs : s.isArticle = false)
    (hty : lower (s.get "type") ≠ "article") :
    let r := (OG.stepImportant lower P content (s, property) ip).1
    r.table = s.table ∧ r.authors = s.authors ∧ r.isArticle = false := by
  have h1 : (ip.type == "image") = false := by rw [hip]; decide
  have h2 : (ip.type == "profile") = false := by rw [hip]; decide
  have h3 : (ip.type == "article") = true := by rw [hip]; decide
  have h5 : (lower (s.get "type") == "article") = false := by rw [beq_eq_false_iff_ne]; exact hty
  simp only [OG.stepImportant]
  split
  · exact ⟨rfl, rfl, hs⟩
  · simp [h1, h2, h3, hs, h5]

/-- the premises are met by an ordinary page: `og:type = article` in the table, then `article:section` -/
example : (OG.stepImportant id {} "politics" (({} : OG.St).set "type" "article", "article:section")
    ⟨"section", .article, "article"⟩).1.get "section" = "politics" :=
  (article_tag_after_type_counts id {} "politics" "article:section" _ ⟨"section", .article, "article"⟩ rfl
    (by decide) (by decide) (by decide)).1

/-- the OpenGraph accessor never opts out and never provides a copyright -/
theorem og_no_optout (lower : String → String) (p : OG.Parsed) :
    (OG.source lower p).optOut = false ∧ (OG.source lower p).copyright = "" := ⟨rfl, rfl⟩

/-! ### the schema.org accessor and the whole of `MarkupInfo`, from the document tree (models:
Distill.Model.SchemaOrg, Distill.Model.MarkupPage; stages `schemaorg`, `markuppage`) -/

theorem schema_org_tie : Gen.schemaOrgBodies = Gen.schemaOrgBodiesExpected := by rfl

def typeName : SO.SType → String
  | .unsupported => "Unsupported" | .image => "Image" | .article => "Article" | .person => "Person" | .organization => "Organization"

/-- the type table and the tag → attribute table the model spells out are the ones in the source -/
theorem schema_tables_tie :
    Gen.schemaTypeURLs.all (fun p => typeName (SO.typeOfURL p.1) == p.2) = true ∧
    Gen.tagAttributeMap.all (fun p => (SO.attrOfTag p.1).map (fun a => "\"" ++ a ++ "\"") == some p.2) = true := by
  constructor <;> decide +kernel

/-- a type URL outside the table is unsupported -/
theorem schema_type_complete (u : String) (h : SO.typeOfURL u ≠ .unsupported) :
    (Gen.schemaTypeURLs.map (·.1)).contains u = true := by
  unfold SO.typeOfURL at h
  simp only [Gen.schemaTypeURLs, List.map, List.contains_cons, List.contains_nil, Bool.or_false]
  split at h
  · rename_i h1; simp_all
  · split at h
    · rename_i h2; simp only [List.contains_cons, List.contains_nil, Bool.or_false, Bool.or_eq_true, beq_iff_eq] at h2
      rcases h2 with h2 | h2 | h2 | h2 | h2 <;> simp [h2]
    · split at h
      · rename_i h3; simp_all
      · split at h
        · rename_i h4; simp only [List.contains_cons, List.contains_nil, Bool.or_false, Bool.or_eq_true, beq_iff_eq] at h4
          rcases h4 with h4 | h4 | h4 | h4 | h4 <;> simp [h4]
        · exact absurd rfl h

/-- **Accessor order, from the page**: OpenGraph takes part only when its parsed record passes the
gate; schema.org always precedes IE Reading View. -/
theorem page_sources_order (A : PageAtoms) (root : Node) :
    pageSources A root =
      (if OG.usable (OG.parse A.lower A.prefixes root) then [OG.source A.lower (OG.parse A.lower A.prefixes root)] else []) ++
      [SO.source A.lower root, IE.source { lower := A.lower, upper := A.upper, vis := A.vis } root] := by
  simp [pageSources, sources]

/-- **Opt-out, end to end**: when the first scanned `meta` named IE_RM_OFF says `true`, the
`MarkupInfo` of the page is entirely empty, whatever OpenGraph and schema.org markup it carries. -/
theorem page_markup_optout (A : PageAtoms) (root m : Node) (before after : List Node)
    (hsplit : IE.withTag root "meta" = before ++ m :: after)
    (hbefore : ∀ x ∈ before, IE.isOptOutName { lower := A.lower, upper := A.upper, vis := A.vis } x = false)
    (hm : IE.isOptOutName { lower := A.lower, upper := A.upper, vis := A.vis } m = true)
    (htrue : IE.saysTrue { lower := A.lower, upper := A.upper, vis := A.vis } m = true) :
    pageMarkup A root = {} := by
  unfold pageMarkup
  rw [page_sources_order]
  have := page_optout_empties { lower := A.lower, upper := A.upper, vis := A.vis } root m before after
    ((if OG.usable (OG.parse A.lower A.prefixes root) then [OG.source A.lower (OG.parse A.lower A.prefixes root)] else []) ++ [SO.source A.lower root])
    hsplit hbefore hm htrue
  simpa [List.append_assoc] using this

/-- only the IE Reading View accessor can opt out -/
theorem only_ie_opts_out (A : PageAtoms) (root : Node) :
    (pageSources A root).any (·.optOut) = (IE.source { lower := A.lower, upper := A.upper, vis := A.vis } root).optOut := by
  rw [page_sources_order]
  by_cases h : OG.usable (OG.parse A.lower A.prefixes root) = true <;> simp [h, OG.source, SO.source]

/-! ### non-vacuity -/
def ogS : MSource := { title := "OG title", type := "Article", url := "http://e/", images := [{ url := "i.png" }],
                       article := some { sect := "news" } }
def scS : MSource := { title := "Schema title", author := "Jane", copyright := "(c) S", article := some { modified := "2021" } }
def ieS : MSource := { title := "IE title", copyright := "(c) IE", article := some {} }

example : (combine (sources true ogS scS ieS)).title = "OG title" ∧
          (combine (sources true ogS scS ieS)).author = "Jane" ∧
          (combine (sources true ogS scS ieS)).copyright = "(c) S" ∧
          (combine (sources true ogS scS ieS)).article = { sect := "news" } := by decide
example : (combine (sources false ogS scS ieS)).title = "Schema title" ∧
          (combine (sources false ogS scS ieS)).article = { modified := "2021" } := by decide
example : combine (sources true ogS scS { ieS with optOut := true }) = {} := by decide

end Distill.C14
