/-
  C04 — Non-rendered and non-reading content never leaks into the output.

  Main walk: proved for every tree and all atoms.  Secondary paths (cloned data tables and
  figure captions): `GetOutputNodes` is modelled in Distill.Model.Render and proved to apply
  the same visibility filter.
-/
import Distill.Props.RenderProps
import Distill.Proofs.Convert
import Distill.Model.Render
import Distill.Gen.Funcs
namespace Distill.C04
open Distill

/-- **Semantics of the visibility test** (about the expression regenerated from
`domutil.IsProbablyVisible`): each of the listed techniques makes an element invisible. -/
theorem hidden_sem (v : VisAtoms)
    (h : v.display = "none" ∨ v.hasHidden = true ∨ v.visHidden = true ∨
         (v.ariaHidden = "true" ∧ v.fallbackImage = false)) :
    Gen.isProbablyVisible v = some false := by
  simp only [Gen.isProbablyVisible]
  rcases h with h | h | h | ⟨h1, h2⟩
  · simp [h]
  · simp [h]
  · simp [h]
  · simp [h1, h2]

/-- script, style, link and meta have default display `none` in the generated table -/
theorem default_display_none :
    defaultDisplay "script" = "none" ∧ defaultDisplay "style" = "none" ∧
    defaultDisplay "link" = "none" ∧ defaultDisplay "meta" = "none" := by
  decide +kernel

/-- the two skip clauses of the converter's tag switch contain exactly the kinds the property
lists (plus link/script/style/head, which are also non-rendered) -/
theorem skip_tags :
    ["option", "object", "embed", "applet", "input", "button", "form", "textarea", "select"].all skipFlushTag = true ∧
    ["head", "style", "script", "link", "noscript", "iframe", "svg"].all skipSilentTag = true := by
  decide +kernel

/-- **Main walk.** Whatever the converter hands to the document builder is text that is not
inside a hidden element and not inside a skipped kind of element — for every tree, mode and
atoms; in particular nothing under such an element can reach the distilled text. -/
theorem walk_skips (cfg : CCfg) (A : CAtoms) (anc : List String) (hp : Bool) (n : Node) :
    (textEvIds (convert cfg A anc hp n)).Sublist (n.visTextIds A) :=
  convertNode_visible_sublist cfg A anc hp n

/-- a hidden element contributes no builder call at all (no text, no media, no tag) -/
theorem hidden_element_silent (cfg : CCfg) (A : CAtoms) (anc : List String) (hp : Bool)
    (i : Nat) (t : String) (attrs : List Attr) (ks : List Node) (h : visible A i t attrs = false) :
    convertNode cfg A anc hp (.elem i t attrs ks) = [] :=
  convert_hidden cfg A anc hp i t attrs ks h

/-- **Cloned tables and captions.** The node list `GetOutputNodes` collects for a table /
caption clone contains no node inside an element the visibility test rejects. -/
theorem output_nodes_visible (A : CAtoms) (n : Node) :
    (outputTextIds A n).Sublist (n.visibleOnlyTextIds A) :=
  outputTextIds_sublist A n

/-- the statement list of `GetOutputNodes` as it stands (script/style and visibility filter) -/
theorem get_output_nodes_tie : Gen.getOutputNodesBody = Gen.getOutputNodesBodyExpected := by rfl

end Distill.C04
