/-
  C04 — Non-rendered and non-reading content never leaks into the output.

  Main walk: proved for every tree and all atoms.  Secondary paths (cloned data tables and
  figure captions): `GetOutputNodes` is modelled in Distill.Model.Render and proved to apply
  the same visibility filter.
-/
import Distill.Props.RenderProps
import Distill.Proofs.Convert
import Distill.Model.Render
import Distill.Gen.Funcs
import Distill.Gen.Tables
import Distill.Proofs.Style
import Distill.Model.Derive
namespace Distill.C04
open Distill

/-- **Semantics of the visibility test** (about the expression regenerated from
`domutil.IsProbablyVisible`): each of the listed techniques makes an element invisible. -/
theorem hidden_sem (v : VisAtoms)
    (h : v.display = "none" ∨ v.hasHidden = true ∨ v.visHidden = true ∨
         (v.ariaHidden = "true" ∧ v.fallbackImage = false)) :
    Gen.isProbablyVisible v = some false := by
  simp only [Gen.isProbablyVisible]
  rcases h with h | h | h | ⟨h1, h2⟩
  · simp [h]
  · simp [h]
  · simp [h]
  · simp [h1, h2]

/-- script, style, link and meta have default display `none` in the generated table -/
theorem default_display_none :
    defaultDisplay "script" = "none" ∧ defaultDisplay "style" = "none" ∧
    defaultDisplay "link" = "none" ∧ defaultDisplay "meta" = "none" := by
  decide +kernel

/-- the two skip clauses of the converter's tag switch contain exactly the kinds the property
lists (plus link/script/style/head, which are also non-rendered) -/
theorem skip_tags :
    ["option", "object", "embed", "applet", "input", "button", "form", "textarea", "select"].all skipFlushTag = true ∧
    ["head", "style", "script", "link", "noscript", "iframe", "svg"].all skipSilentTag = true := by
  decide +kernel

/-- **Main walk.** Whatever the converter hands to the document builder is text that is not
inside a hidden element and not inside a skipped kind of element — for every tree, mode and
atoms; in particular nothing under such an element can reach the distilled text. -/
theorem walk_skips (cfg : CCfg) (A : CAtoms) (anc : List String) (hp : Bool) (n : Node) :
    (textEvIds (convert cfg A anc hp n)).Sublist (n.visTextIds A) :=
  convertNode_visible_sublist cfg A anc hp n

/-- a hidden element contributes no builder call at all (no text, no media, no tag) -/
theorem hidden_element_silent (cfg : CCfg) (A : CAtoms) (anc : List String) (hp : Bool)
    (i : Nat) (t : String) (attrs : List Attr) (ks : List Node) (h : visible A i t attrs = false) :
    convertNode cfg A anc hp (.elem i t attrs ks) = [] :=
  convert_hidden cfg A anc hp i t attrs ks h

/-- **Cloned tables and captions.** The node list `GetOutputNodes` collects for a table /
caption clone contains no node inside an element the visibility test rejects. -/
theorem output_nodes_visible (A : CAtoms) (n : Node) :
    (outputTextIds A n).Sublist (n.visibleOnlyTextIds A) :=
  outputTextIds_sublist A n

/-- the statement list of `GetOutputNodes` as it stands (script/style and visibility filter) -/
theorem get_output_nodes_tie : Gen.getOutputNodesBody = Gen.getOutputNodesBodyExpected := by rfl


/-! ### what the visibility test reads from an inline style

`styleDisplay` and `visHidden` above are atoms.  `Model/Style.lean` opens them: both regular
expressions with Go's matching spelled out, every match of `rxDisplay`, and the cascade of
`GetDisplayStyle` (the check runs it against the real functions on declaration lists and token soup). -/

/-- the two expressions the model spells out are the ones in the source -/
theorem style_regexps_tie :
    Gen.modelledRegexps.lookup "internal/domutil.rxDisplay" =
      some "(?i)display\\s*:\\s*([\\w-]+)\\s*(!\\s*important\\s*)?(?:;|$)" ∧
    Gen.modelledRegexps.lookup "internal/domutil.rxVisibilityHidden" =
      some "(?i)visibility\\s*:\\s*(:?hidden|collapse)" := by
  constructor <;> decide +kernel

/-- `GetDisplayStyle` (all matches, the cascade) and `IsProbablyVisible` as they stand -/
theorem style_bodies_tie : Gen.styleBodies = Gen.styleBodiesExpected := by rfl

/-- **Every spelling of every declaration is read**: in a style attribute made of `display`
declarations — any case, any white space around the colon, before `!important`, inside it and before
the semicolon — every declaration is found with its value and its importance, in order; for any
number of declarations. -/
theorem display_declarations_read (ds : List Style.Decl) (h : ∀ d ∈ ds, d.WF) :
    Style.displayAll ((Style.render ds).length + 1) (Style.render ds) = ds.map Style.Decl.toMatch :=
  Style.displayAll_render ds h _ (Nat.lt_succ_self _)

/-- **The last declaration decides** when none before it is important … -/
theorem last_display_decides (pre : List Style.Decl) (d : Style.Decl) (h : ∀ x ∈ pre ++ [d], x.WF)
    (hpre : ∀ x ∈ pre, x.imp = none) :
    Style.display (Style.render (pre ++ [d])) = some (d.value.map Style.lower) := by
  unfold Style.display
  rw [display_declarations_read _ h, List.map_append, List.map_cons, List.map_nil,
    Style.cascade_unimportant_last _ (by
      intro x hx
      simp only [List.mem_map] at hx
      obtain ⟨y, hy, rfl⟩ := hx
      simp [Style.Decl.toMatch, hpre y hy]) _ none (by intro c hc; cases hc)]
  rfl

/-- … **and an important one stays** whatever unimportant declarations follow it: with
`display:none !important` anywhere and no important declaration after it, the element is not rendered -/
theorem important_display_stays (pre post : List Style.Decl) (d : Style.Decl)
    (h : ∀ x ∈ pre ++ [d] ++ post, x.WF) (hd : d.imp.isSome = true) (hpost : ∀ x ∈ post, x.imp = none) :
    Style.display (Style.render (pre ++ [d] ++ post)) = some (d.value.map Style.lower) := by
  unfold Style.display
  rw [display_declarations_read _ h]
  simp only [List.map_append, List.map_cons, List.map_nil]
  rw [Style.cascade_append, Style.cascade_append]
  have hstep : ∀ cur : Option Style.DMatch, Style.cascade cur [d.toMatch] = some ⟨d.value, true⟩ := by
    intro cur
    cases cur with
    | none => simp [Style.cascade, Style.Decl.toMatch, hd]
    | some c => simp [Style.cascade, Style.Decl.toMatch, hd]
  rw [hstep, Style.cascade_important_stays ⟨d.value, true⟩ rfl _ (by
      intro x hx
      simp only [List.mem_map] at hx
      obtain ⟨y, hy, rfl⟩ := hx
      simp [Style.Decl.toMatch, hpost y hy])]
  rfl

/-- **`visibility: hidden | collapse` is recognised in every spelling, wherever it stands** in the
attribute: any case, any white space before and after the colon, anything before and after -/
theorem visibility_hidden_any_spelling (a name w1 w2 kw b : List Char)
    (hn : Style.FoldsTo name "visibility".toList) (h1 : Style.AllWS w1) (h2 : Style.AllWS w2)
    (hk : (Style.FoldsTo kw "hidden".toList ∨ Style.FoldsTo kw "collapse".toList) ∧
      ∀ c ∈ kw, Style.isWS c = false ∧ c ≠ ':') :
    Style.visHidden (a ++ (name ++ w1 ++ ':' :: w2 ++ kw ++ b)) = true :=
  Style.visHidden_append_left a _ (Style.visHidden_of_visAt _ (Style.visAt_spelled name w1 w2 kw b hn h1 h2 hk))

/-! ### from the written style attribute to silence

With the per-element answers computed by the model from the attributes (`deriveAtoms`, which is how the
convert / outputnodes / textrender / imageextract correspondence runs), the two chains close: a
declaration in the style attribute, in any spelling, silences the element. -/

/-- an element whose style attribute is a list of `display` declarations the last of which says
`none` (no earlier one being important) contributes no builder call at all -/
theorem display_none_declaration_silences (cfg : CCfg) (A : CAtoms) (anc : List String) (hp : Bool)
    (i : Nat) (t : String) (attrs : List Attr) (ks : List Node)
    (hA : A.styleDisplay i = derivedDisplay attrs)
    (pre : List Style.Decl) (d : Style.Decl) (hwf : ∀ x ∈ pre ++ [d], x.WF) (hpre : ∀ x ∈ pre, x.imp = none)
    (hstyle : (getAttr attrs "style").toList = Style.render (pre ++ [d]))
    (hnone : d.value.map Style.lower = "none".toList) :
    convertNode cfg A anc hp (.elem i t attrs ks) = [] := by
  apply hidden_element_silent
  have hd : derivedDisplay attrs = "none" := by
    unfold derivedDisplay
    rw [hstyle, last_display_decides pre d hwf hpre, hnone]
    rfl
  unfold visible
  rw [hidden_sem _ (Or.inl (by simp [visAtoms, displayOf, hA, hd]))]

/-- an element whose style attribute contains `visibility: hidden | collapse` in any spelling, anywhere,
contributes no builder call at all -/
theorem visibility_declaration_silences (cfg : CCfg) (A : CAtoms) (anc : List String) (hp : Bool)
    (i : Nat) (t : String) (attrs : List Attr) (ks : List Node)
    (hA : A.visHidden i = derivedVisHidden attrs)
    (a name w1 w2 kw b : List Char)
    (hn : Style.FoldsTo name "visibility".toList) (h1 : Style.AllWS w1) (h2 : Style.AllWS w2)
    (hk : (Style.FoldsTo kw "hidden".toList ∨ Style.FoldsTo kw "collapse".toList) ∧
      ∀ c ∈ kw, Style.isWS c = false ∧ c ≠ ':')
    (hstyle : (getAttr attrs "style").toList = a ++ (name ++ w1 ++ ':' :: w2 ++ kw ++ b)) :
    convertNode cfg A anc hp (.elem i t attrs ks) = [] := by
  apply hidden_element_silent
  have hv : derivedVisHidden attrs = true := by
    unfold derivedVisHidden
    rw [hstyle]
    exact visibility_hidden_any_spelling a name w1 w2 kw b hn h1 h2 hk
  unfold visible
  rw [hidden_sem _ (Or.inr (Or.inr (Or.inl (by simp [visAtoms, hA, hv]))))]

/-- `deriveAtoms` supplies exactly the premises `hA` of the two theorems for every element of the tree -/
theorem derive_supplies (t : Node) (A : CAtoms) (i : Nat) :
    (deriveAtoms t A).styleDisplay i = derivedDisplay (attrsOf t i) ∧
    (deriveAtoms t A).visHidden i = derivedVisHidden (attrsOf t i) := ⟨rfl, rfl⟩

/-! non-vacuity -/
example : Style.display "color:red; DISPLAY :\tNone ! Important ;display:block".toList = some "none".toList := by
  decide +kernel
example : Style.display "display:block;display:none".toList = some "none".toList := by decide +kernel
example : Style.display "margin:0".toList = none := by decide +kernel
example : Style.visHidden "margin:0;VISIBILITY : Collapse".toList = true := by decide +kernel
example : Style.visHidden "visibility:visible".toList = false := by decide +kernel
example : (⟨"Display".toList, " ".toList, [], "NONE".toList, "\t".toList, some ([], "IMPORTANT".toList, " ".toList)⟩ : Style.Decl).WF := by
  refine ⟨?_, by unfold Style.AllWS; decide, by unfold Style.AllWS; decide, by unfold Style.AllWS; decide, by decide, by decide,
    by unfold Style.AllWS; decide, by unfold Style.AllWS; decide, ?_, by decide⟩
  · repeat (first | exact Style.FoldsTo.nil | apply Style.FoldsTo.cons (by decide))
  · repeat (first | exact Style.FoldsTo.nil | apply Style.FoldsTo.cons (by decide))

end Distill.C04
