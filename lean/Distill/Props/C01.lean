/-
  C01 — Every entry point is total: no panic, no hang, well-formed result.

  What is *proved* here concerns the modelled hazards; the parser, the regexps, the heuristic
  filters and the pagination arithmetic are covered by the differential fuzz only (DESIGN §6 C01).
-/
import Distill.Props.LinkScoreProps
import Distill.Props.RenderProps
import Distill.Proofs.Root
import Distill.Proofs.Total
import Distill.Props.FiltersProps
import Distill.Gen.Inventory
import Distill.Gen.Funcs
import Distill.Proofs.PathPattern
import Distill.Proofs.PageGroups
namespace Distill.C01
open Distill

theorem depthElems_map (d : Nat) (es : List DocEl) : depthElems d (es.map toElem) = depthDoc d es := by
  induction es generalizing d with
  | nil => rfl
  | cons x xs ih =>
    cases x with
    | text t => simp [depthElems, depthDoc, toElem, ih]
    | tag n s =>
      cases s with
      | true => simp [depthElems, depthDoc, toElem, ih]
      | false => cases d <;> simp [depthElems, depthDoc, toElem, ih]
    | table i => simp [depthElems, depthDoc, toElem, ih]
    | media k i => cases k <;> simp [depthElems, depthDoc, toElem, MKind.toKind, ih]

theorem depthElems_kinds (d : Nat) (es es' : List Elem) (h : es.map (·.kind) = es'.map (·.kind)) :
    depthElems d es = depthElems d es' := by
  induction es generalizing d es' with
  | nil => cases es' <;> simp_all [depthElems]
  | cons e r ih =>
    cases es' with
    | nil => simp at h
    | cons e' r' =>
      simp only [List.map_cons, List.cons.injEq] at h
      simp only [depthElems, h.1]
      cases e'.kind <;> (try cases d) <;> simp [ih _ r' h.2]

/-- a converted document's placeholders have depth zero at the end and never go negative -/
theorem embed_kinds_not_tags (cfg : CCfg) (A : CAtoms) (anc : List String) (hp : Bool) (n : Node) :
    depthDoc 0 (buildDoc (convert cfg A anc hp n)) = some 0 := by
  rw [← depthDoc_nonText, buildDoc_nonText]
  exact depth_of_tagRun [] [] _ (convertNode_balanced cfg A anc hp n [])

/-- **The retainer's `stack[len(stack)-1]` never panics.**  For every tree, converter mode and
atoms, and for every assignment of content flags (classifier verdict, relevant-elements and
lead-image filters: anything that keeps the kinds), `NestedElementRetainer.Process` finds a
start tag on its stack whenever it meets an end tag, and ends with an empty stack. -/
theorem retainer_never_panics (cfg : CCfg) (A : CAtoms) (anc : List String) (hp : Bool) (n : Node)
    (es : List Elem)
    (hk : es.map (·.kind) = ((buildDoc (convert cfg A anc hp n)).map toElem).map (·.kind)) :
    (nestedRetainer es).isSome = true := by
  have h1 : depthElems 0 es = some 0 := by
    rw [depthElems_kinds 0 es _ hk, depthElems_map]
    exact embed_kinds_not_tags cfg A anc hp n
  obtain ⟨s', us, h2, _⟩ := rrun_total {} 0 es 0 (by simpa using h1)
  simp [nestedRetainer, h2]

/-- **Every Text element has a first node** (`t.GetTextNodes()[0]` in `Text.GenerateOutput`,
`TextNodes[FirstWordNode]` in the lead-image finder): windows are non-empty slices — for every
event sequence. -/
theorem text_windows_nonempty (evs : List BEv) :
    ∀ t ∈ textsOf (buildDoc evs), t.start < t.stop ∧ t.stop ≤ (nodeIds evs).length := by
  have h := (builder_windows evs).1
  generalize textsOf (buildDoc evs) = ts at h
  generalize (0 : Nat) = lo at h
  induction ts generalizing lo with
  | nil => simp
  | cons t r ih =>
    obtain ⟨_, h2, h3, _, h5⟩ := h
    intro x hx
    rcases List.mem_cons.mp hx with hx | hx
    · subst hx; exact ⟨h2, h3⟩
    · exact ih _ h5 x hx

/-- the walk and the builder are total functions (the model's definitions are accepted by
Lean's termination checker: structural recursion over the tree / fold over the events), and a
converted document always has matching placeholders -/
theorem convert_total (cfg : CCfg) (A : CAtoms) (anc : List String) (hp : Bool) (n : Node) :
    tagRun [] (convert cfg A anc hp n) = some [] :=
  convertNode_balanced cfg A anc hp n []

/-- **Hazard inventory**: the index, slice, single-value type-assertion and explicit panic sites
of the library are exactly the reviewed ones (go/extract/expect/hazardSites.json; DESIGN §6 C01
says for each group why it cannot fail or that it is fuzz-only).  A new or changed site makes
this fail and re-opens the question. -/
theorem hazard_sites_tie : Gen.hazardSites = Gen.hazardSitesExpected := by rfl

/-! ### pagination: the index arithmetic of path-component page patterns -/

/-- **`PathComponentPagePattern.IsPagingURL` never indexes out of range**, whatever URL string it
is asked about (the three slicing sites of `isPagingUrlForStartOfPathComponent`, the loop and
the two slices of `isPagingUrlForNotStartOfPathComponent`, `strURL[placeholderStart-1]`), for
every pattern whose stored fields are well-formed … -/
theorem paging_url_total (pp : PP.PathPat) (h : PP.WF pp) (url : PP.Bytes) :
    (PP.isPagingURL pp url).isSome = true :=
  PP.isPagingURL_total pp h url

/-- … which is what the constructor establishes whenever its own slices are in range … -/
theorem pattern_fields_wf (str : PP.Bytes) (origin : Int) (pp : PP.PathPat)
    (h : PP.construct str origin = some pp) : PP.WF pp :=
  PP.construct_wf str origin pp h

/-- … and they are, as soon as the placeholder occurs in the pattern string after a '/'
(the pattern string of an absolute URL starts with `scheme://`). -/
theorem pattern_construct_total (str : PP.Bytes) (origin : Int)
    (h1 : 0 ≤ PP.indexPlaceholder str)
    (h2 : ∀ head, PP.sliceTo str (PP.indexPlaceholder str) = some head → 0 ≤ PP.lastIndexSlash head) :
    (PP.construct str origin).isSome = true :=
  PP.construct_total str origin h1 h2

/-- non-vacuity: the pattern of `http://e.com/a/page-3.html` is well-formed and accepts page 12 -/
example : (PP.construct "http://e.com/a/page-[*!].html".toUTF8.toList 12).map
    (fun pp => (pp.pStart, pp.segStart, PP.isPagingURL pp "http://e.com/a/page-12.html".toUTF8.toList)) =
    some (20, 14, some true) := by decide +kernel

/-- `AddPageInfo`'s read of `prevPageInfo.PageNumber` is never a nil dereference under the
scan's call protocol (no CleanUp before the end): the remembered entry is the last entry of the
group being filled whenever that group is non-empty -/
theorem groups_prev_never_nil (ops : List Pg.GOp) (h : Pg.NoCleanUp ops) : Pg.Inv (Pg.runOps ops) :=
  Pg.runOps_inv ops h

/-! ### the slice after the case-insensitive prefix test (prev/next finder) -/

/-- `HasPrefixIgnoreCase` as repaired: the first `len(prefix)` bytes of `str` fold-equal the
prefix (`eq` stands for `strings.EqualFold`, whatever it decides) -/
def hasPrefixFold (eq : List UInt8 → List UInt8 → Bool) (str pre : List UInt8) : Bool :=
  decide (pre.length ≤ str.length) && eq (str.take pre.length) pre

/-- when the test succeeds, `linkHref[lenPrefix:]` is in range — for every fold-equality -/
theorem prefix_slice_total (eq : List UInt8 → List UInt8 → Bool) (str pre : List UInt8)
    (h : hasPrefixFold eq str pre = true) :
    (PP.slice str pre.length str.length).isSome = true := by
  simp only [hasPrefixFold, Bool.and_eq_true, decide_eq_true_eq] at h
  simp [PP.slice, h.1]

/-- tie: the body of `stringutil.HasPrefixIgnoreCase` is that test -/
theorem prefix_test_tie :
    Gen.hasPrefixIgnoreCaseBody = ["return len(str) >= len(prefix) && strings.EqualFold(str[:len(prefix)], prefix)"] := by
  decide +kernel

/-! ### which element the distiller works on -/

/-- `Apply` and `NewContentExtractor` are the statements the model of the root selection follows;
the content node is a freshly created `div` (regenerated statement lists) -/
theorem apply_bodies_tie : Gen.applyBodies = Gen.applyBodiesExpected := by rfl

theorem apply_shape :
    (Gen.applyBodiesExpected.lookup "..Apply").map (fun l => (l.drop 1).take 1) =
      some ["if doc.Type != html.ElementNode { doc = dom.QuerySelector(doc, \"*\") if doc == nil { return nil, errors.New(\"input doesn't have a valid element\") } }"] ∧
    ((Gen.applyBodiesExpected.lookup "..Apply").map (fun l => l.contains "container := dom.CreateElement(\"div\")" && l.contains "result.Node = container")) = some true ∧
    (Gen.applyBodiesExpected.lookup "internal/extractor..NewContentExtractor").map (fun l => (l.drop 1).take 2) =
      some ["document := dom.QuerySelector(root, \"html\")", "if document == nil { document = root }"] := by
  decide +kernel

/-- **Root validation.** Whatever root the caller hands in — a document, an element, a detached
fragment, a text or comment node — `Apply` either returns the error or goes on with an element, and
the document element the extractor converts is an element of the caller's tree.  This is the
premise `top.isElem` of `text_render_total` and of the converter's theorems. -/
theorem root_is_element (doc : Node) (docKids : List Node) (r : Node) (h : applyRoot doc docKids = some r) :
    r.isElem = true ∧ (extractorRoot r).isElem = true :=
  ⟨applyRoot_isElem doc docKids r h, extractorRoot_isElem r (applyRoot_isElem doc docKids r h)⟩

/-- the error is returned exactly when a non-element root has no element below it -/
theorem root_error_iff (doc : Node) (docKids : List Node) :
    applyRoot doc docKids = none ↔ (doc.isElem = false ∧ firstElemL (fun _ => true) docKids = none) := by
  unfold applyRoot
  cases h : doc.isElem <;> simp

example : (applyRoot (.other 0 3) [.other 1 10, .elem 2 "html" [] [.elem 3 "body" [] []]]).map Node.id = some 2 := by decide
example : applyRoot (.other 0 3) [.other 1 10, .text 2 "x"] = none := by decide
example : (extractorRoot (.elem 0 "div" [] [.elem 1 "p" [] [], .elem 2 "html" [] []])).id = 2 := by decide
example : (extractorRoot (.elem 0 "html" [] [.elem 1 "body" [] []])).id = 0 := by decide

end Distill.C01
