/-
  C17 — Conventional pagers are resolved correctly (page-number algorithm).

  The property's quantifier is finite: N in 2..12, k in 1..N, the URL pattern families.  For every
  cell the model of the detection, run on the page-pattern answers the implementation itself
  gives for the family's URLs (`Gen.pagerFamilies`, regenerated on every run) and on the group
  the DOM scan yields for a conventional pager (1..N ascending, the current page without URL;
  the harness checks for every enumerated markup that the real scan yields exactly this group),
  returns the link of page k+1 and the link of page k−1.
-/
import Distill.Gen.PagerFamily
namespace Distill.C17
open Distill.Pg Distill.Gen

def atomsOf (d : FamDoc) : Atoms :=
  { urls := d.urls,
    isPaging := fun k u => match d.paging.find? (fun e => e.1 == k) with
      | some e => e.2.contains u
      | none => false,
    docURL := d.docURL, docParses := d.docParses }

/-- what the DOM scan yields for a conventional pager: 1..N ascending, page k without URL -/
def pagerGroups (pages : List String) (n k : Nat) : List PGroup :=
  [{ list := (List.range n).map (fun i =>
       ({ num := ((i + 1 : Nat) : Int), url := if i + 1 == k then "" else pages.getD i "" } : PInfo)),
     deltaSign := 1 }]

/-- (NextPage, PrevPage) the pager shows -/
def expected (pages : List String) (n k : Nat) : String × String :=
  (if k < n then pages.getD k "" else "", if k > 1 then pages.getD (k - 2) "" else "")

def result (f : PagerFamily) (n k : Nat) : Option (String × String) :=
  match f.docs[k - 1]? with
  | none => none
  | some d => some (numberPrevNext (detectParamInfo (atomsOf d) (pagerGroups f.pages n k) d.docArg) d.strPage d.escPage)

def cellOk (f : PagerFamily) (n k : Nat) : Bool :=
  result f n k == some (expected f.pages n k)

/-- page 1 addressed without the page parameter (the links 2 … N all follow the pattern) -/
def resultBare (f : PagerFamily) (n : Nat) : String × String :=
  let d := f.docBare
  numberPrevNext (detectParamInfo (atomsOf d) (pagerGroups f.pages n 1) d.docArg) d.strPage d.escPage

def bareOk (f : PagerFamily) (n : Nat) : Bool := resultBare f n == expected f.pages n 1

/-- all N with 2 ≤ N ≤ 12 -/
def allN : List Nat := (List.range 11).map (· + 2)

/-- all (N, k) with 2 ≤ N ≤ 12, 1 ≤ k ≤ N -/
def allCells : List (Nat × Nat) :=
  (List.range 11).flatMap (fun j => (List.range (j + 2)).map (fun i => (j + 2, i + 1)))

theorem allCells_complete (n k : Nat) (hn : 2 ≤ n ∧ n ≤ 12) (hk : 1 ≤ k ∧ k ≤ n) : (n, k) ∈ allCells := by
  simp only [allCells, List.mem_flatMap, List.mem_range, List.mem_map, Prod.mk.injEq]
  exact ⟨n - 2, by omega, k - 1, by omega, by omega, by omega⟩


end Distill.C17
