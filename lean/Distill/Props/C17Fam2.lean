/- C17: the 77 cells of URL family 2 (kernel evaluation of the model on the implementation's
page-pattern answers); one file per family so the families are checked in parallel. -/
import Distill.Props.C17Defs
namespace Distill.C17
open Distill.Gen

theorem fam2_cells : ∀ c ∈ allCells, cellOk fam2 c.1 c.2 = true := by
  decide +kernel

theorem fam2_bare : ∀ n ∈ allN, bareOk fam2 n = true := by
  decide +kernel

end Distill.C17
