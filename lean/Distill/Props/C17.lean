/-
  C17 — Conventional pagers are resolved correctly (page-number algorithm).
  Definitions: Props/C17Defs.lean; per-family cell checks: Props/C17Fam*.lean.
-/
import Distill.Proofs.ScanPager
import Distill.Props.LinkScoreProps
import Distill.Proofs.Terms
import Distill.Gen.Tables
import Distill.Gen.Funcs
import Distill.Proofs.Pagination
import Distill.Proofs.PageGroups
import Distill.Props.C17Fam0
import Distill.Props.C17Fam1
import Distill.Props.C17Fam2
import Distill.Props.C17Fam3
import Distill.Props.C17Fam4
import Distill.Props.C17Fam5
import Distill.Props.C17Fam6
import Distill.Props.C17Fam7
import Distill.Props.C17Fam8
namespace Distill.C17
open Distill.Pg Distill.Gen

theorem families_listed : pagerFamilies = [fam0, fam1, fam2, fam3, fam4, fam5, fam6, fam7, fam8] := rfl

/-- **Conventional pagers.** -/
theorem conventional_pagers_cells : ∀ f ∈ pagerFamilies, ∀ c ∈ allCells, cellOk f c.1 c.2 = true := by
  intro f hf
  rw [families_listed] at hf
  simp only [List.mem_cons, List.not_mem_nil, or_false] at hf
  rcases hf with h | h | h | h | h | h | h | h | h <;> subst h
  · exact fam0_cells
  · exact fam1_cells
  · exact fam2_cells
  · exact fam3_cells
  · exact fam4_cells
  · exact fam5_cells
  · exact fam6_cells
  · exact fam7_cells
  · exact fam8_cells

/-- **… and on page 1 addressed without the parameter.** -/
theorem first_page_bare_cells : ∀ f ∈ pagerFamilies, ∀ n ∈ allN, bareOk f n = true := by
  intro f hf
  rw [families_listed] at hf
  simp only [List.mem_cons, List.not_mem_nil, or_false] at hf
  rcases hf with h | h | h | h | h | h | h | h | h <;> subst h
  · exact fam0_bare
  · exact fam1_bare
  · exact fam2_bare
  · exact fam3_bare
  · exact fam4_bare
  · exact fam5_bare
  · exact fam6_bare
  · exact fam7_bare
  · exact fam8_bare

theorem first_page_bare (f : PagerFamily) (hf : f ∈ pagerFamilies) (n : Nat) (hn : 2 ≤ n ∧ n ≤ 12) :
    resultBare f n = expected f.pages n 1 := by
  have hmem : n ∈ allN := by
    simp only [allN, List.mem_map, List.mem_range]
    exact ⟨n - 2, by omega, by omega⟩
  simpa [bareOk] using first_page_bare_cells f hf n hmem

theorem conventional_pagers (f : PagerFamily) (hf : f ∈ pagerFamilies) (n k : Nat)
    (hn : 2 ≤ n ∧ n ≤ 12) (hk : 1 ≤ k ∧ k ≤ n) :
    result f n k = some (expected f.pages n k) := by
  have h := conventional_pagers_cells f hf (n, k) (allCells_complete n k hn hk)
  simpa [cellOk] using h

/-- the entries of a conventional pager: 1 … N, the current page k without URL -/
def pagerEntries (pages : List String) (n k : Nat) : List PInfo :=
  (List.range n).map (fun i =>
    ({ num := ((i + 1 : Nat) : Int), url := if i + 1 == k then "" else pages.getD i "" } : PInfo))

theorem ascending_range (f : Nat → String) : ∀ (n s : Nat),
    Ascending ((List.range' s n).map (fun i => ({ num := ((i + 1 : Nat) : Int), url := f i } : PInfo)))
  | 0, _ => by simp [Ascending]
  | 1, _ => by simp [List.range', Ascending]
  | n + 2, s => by
    have ih := ascending_range f (n + 1) (s + 1)
    simp only [List.range', List.map] at ih ⊢
    exact ⟨by simp; omega, ih⟩

/-- **From the scan's calls to the group.**  For every N ≥ 2 (no bound) the calls the scan
makes for a conventional pager — AddGroup, then one AddPageInfo/AddNumber per entry in
ascending order, CleanUp — leave exactly the one group the table theorem is about. -/
theorem pager_calls_give_group (pages : List String) (n k : Nat) (hn : 2 ≤ n) :
    (runOps (GOp.addGroup :: (pagerEntries pages n k).map GOp.add ++ [GOp.cleanUp])).groups = pagerGroups pages n k := by
  have hlen : 2 ≤ (pagerEntries pages n k).length := by simp [pagerEntries]; exact hn
  have hasc : Ascending (pagerEntries pages n k) := by
    have := ascending_range (fun i => if i + 1 == k then "" else pages.getD i "") n 0
    simpa [pagerEntries, List.range_eq_range'] using this
  rw [Pg.ascending_one_group _ hlen hasc]
  rfl

/-- **The DOM scan on a conventional pager.**  For a pager of N links, 2 ≤ N ≤ 12, seen from page k —
the links 1 … N in one element, the current page as plain text or wrapped in `<strong>`, with or without
white-space text nodes between the items — the scan of `Model/Scan.lean` (executed against the real scan,
stage numberscan) leaves exactly one group: 1 … N ascending, every link with its URL, the current
page without.  Kernel evaluation over the 77 × 4 cells. -/
theorem conventional_pager_scan (n k : Nat) (hn : 2 ≤ n ∧ n ≤ 12) (hk : 1 ≤ k ∧ k ≤ n) (wrap sep : Bool) :
    (Scan.scanGroups (ScanPager.atoms n k wrap sep) (ScanPager.tree n k wrap sep)).map
      (·.map fun g => (g.deltaSign, g.list.map fun p => (p.num, p.url))) = some (ScanPager.canonical n k) := by
  have hc : (n, k) ∈ ScanPager.cells := by
    unfold ScanPager.cells
    simp only [List.mem_flatMap, List.mem_map, List.mem_range, Prod.mk.injEq]
    exact ⟨n, ⟨n - 2, by omega, by omega⟩, k, ⟨k - 1, by omega, by omega⟩, rfl, rfl⟩
  have := ScanPager.pager_scan_cells (n, k) hc wrap (by cases wrap <;> simp) sep (by cases sep <;> simp)
  simpa [ScanPager.cellOk] using this

/-- **Prev/next algorithm.**  A candidate that is not banned, scored at least 50 and scored
strictly higher than every other eligible candidate with a different href is what the finder
returns.  (The harness checks, for every enumerated pager with an anchor labelled Next /
Prev / Previous, that the scores the implementation gave meet these premises for the labelled
anchor.) -/
theorem prevnext_labelled (banned : List String) (cs : List Cand) (c : Cand)
    (hm : c ∈ cs) (hb : c.href ∉ banned) (hs : c.score ≥ 50)
    (hbest : ∀ c' ∈ cs, c'.href ∉ banned → c'.href ≠ c.href → c'.score < c.score) :
    prevNextResult banned cs = c.href := by
  obtain ⟨r, hr, hle⟩ := (Pg.pickFold_max banned cs none).2 c hm hb hs
  rw [← Pg.pickTop_eq] at hr
  rcases Pg.pickTop_cand banned cs with h | ⟨c0, hc0, h, _, hb0⟩
  · rw [h] at hr; cases hr
  · have e0 : c0 = r := by rw [h] at hr; exact Option.some.inj hr
    subst e0
    have hres : prevNextResult banned cs = c0.href := by simp [prevNextResult, h]
    rw [hres]
    by_cases e : c0.href = c.href
    · exact e
    · have := hbest c0 hc0 hb0 e
      omega

/-- **The labelled anchor is returned**, with the scores derived in the model rather than read from the
implementation: among the anchors of a page, let `A` be a candidate with at least 50 points whose URL
is not banned, and let every candidate with another URL score less (for a conventional pager this is
what `labelled_anchor_wins` gives: the labelled anchor to the neighbouring page is 41 points ahead of
every numbered one).  Then the prev/next finder returns `A`'s URL. -/
theorem labelled_anchor_is_returned (next : Bool) (Fs : List LinkScore.Facts) (A : LinkScore.Facts) (sa : Int)
    (hA : A ∈ Fs) (hv : LinkScore.verdict next A = .cand sa) (hs : sa ≥ 50)
    (hnb : ∀ G ∈ Fs, LinkScore.verdict next G = .banned → G.href ≠ A.href)
    (hbest : ∀ G ∈ Fs, ∀ sg, LinkScore.verdict next G = .cand sg → G.href ≠ A.href → sg < sa) :
    LinkScore.findOutlink next Fs = A.href := by
  unfold LinkScore.findOutlink
  simp only []
  apply prevnext_labelled _ _ ⟨A.href, sa⟩
  · simp only [List.mem_filterMap]
    exact ⟨A, hA, by rw [hv]⟩
  · intro hmem
    simp only [List.mem_filterMap] at hmem
    obtain ⟨G, hG, hg⟩ := hmem
    split at hg
    · rename_i hgb
      simp only [Option.some.injEq] at hg
      exact hnb G hG hgb hg
    · cases hg
  · exact hs
  · intro c hc _ hne
    simp only [List.mem_filterMap] at hc
    obtain ⟨G, hG, hgv⟩ := hc
    split at hgv
    · rename_i sg hgc
      simp only [Option.some.injEq] at hgv
      subst hgv
      exact hbest G hG sg hgc hne
    · cases hgv

example : prevNextResult [] [⟨"http://e.com/a?page=1", 25⟩, ⟨"http://e.com/a?page=3", 100⟩, ⟨"http://e.com/a?page=3", 33⟩] =
    "http://e.com/a?page=3" := by decide +kernel

/-- the table is not empty: 7 families, 77 cells each -/
theorem coverage : pagerFamilies.length = 9 ∧ allCells.length = 77 := by decide +kernel

/-! ### how the current page, shown as plain text, is read -/

/-- the three functions and the four regular expressions `Model/Terms.lean` spells out are the
ones in the source -/
theorem term_reading_tie :
    Gen.pageTermBodies = Gen.pageTermBodiesExpected ∧
    Gen.modelledRegexps.lookup "internal/pagination.rxNumber" = some "\\d" ∧
    Gen.modelledRegexps.lookup "internal/pagination.rxTerms" = some "(?i)(\\S*[\\w\\x{00C0}-\\x{1FFF}\\x{2C00}-\\x{D7FF}]\\S*)" ∧
    Gen.modelledRegexps.lookup "internal/pagination.rxSurroundingDigits" = some "(?i)^[\\W_]*(\\d+)[\\W_]*$" ∧
    Gen.modelledRegexps.lookup "internal/pagination.rxLinkNumberCleaner" = some "[()\\[\\]{}]" := by
  refine ⟨rfl, ?_, ?_, ?_, ?_⟩ <;> decide +kernel

/-- **The current page is recognised whatever decorates it**: a run of ASCII digits between any
characters that are neither ASCII letters nor digits — brackets, dashes, dots, guillemets, no-break
or ideographic spaces, CJK — is read as that number. -/
theorem decorated_current_page (pre ds suf : List Char)
    (hpre : pre.all (fun c => !Pg.isAsciiAlnum c) = true)
    (hds : ds.all Pg.isAsciiDigit = true) (hne : ds ≠ [])
    (hsuf : suf.all (fun c => !Pg.isAsciiAlnum c) = true) :
    Pg.termNumber (pre ++ ds ++ suf) = some (Pg.digitsVal ds) :=
  Pg.decorated_number pre ds suf hpre hds hne hsuf

/-- and a term that holds an ASCII letter never is -/
theorem lettered_term_is_no_number (t : List Char) (c : Char) (hc : c ∈ t)
    (hl : Pg.isAsciiAlnum c = true) (hnd : Pg.isAsciiDigit c = false) : Pg.termNumber t = none :=
  Pg.letter_term_not_number t c hc hl hnd

end Distill.C17
