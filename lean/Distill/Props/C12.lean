/-
  C12 — Apply is safe for concurrent use.
-/
import Distill.Model.Heap
import Distill.Gen.Inventory
namespace Distill.C12
open Distill

/-- one step of a schedule does not touch the other threads -/
theorem runSchedule_other {Shared Priv : Type} (progs : List (ThreadProg Shared Priv)) (sh : Shared) :
    ∀ (sched : List Nat) (ps : List Priv) (j : Nat), j ∉ sched →
      (runSchedule progs sh ps sched)[j]? = ps[j]? := by
  intro sched
  induction sched with
  | nil => intro ps j _; rfl
  | cons i rest ih =>
    intro ps j hj
    have hne : i ≠ j := fun h => hj (h ▸ List.mem_cons_self)
    have hrest : j ∉ rest := fun h => hj (List.mem_cons_of_mem _ h)
    simp only [runSchedule]
    split
    · rw [ih _ j hrest, List.getElem?_set_ne hne]
    · exact ih _ j hrest

/-- **Non-interference.**  Threads that only read the shared part (the input document, the
options, the package-level tables and compiled regexps) and write only their own private state
compute, under *every* schedule, exactly what they compute when run alone: the private state of
thread `j` after the schedule is its state after running alone for as many steps as the
schedule gave it. -/
theorem noninterference {Shared Priv : Type} (progs : List (ThreadProg Shared Priv)) (sh : Shared)
    (sched : List Nat) (ps : List Priv) (j : Nat) (p : ThreadProg Shared Priv) (st : Priv)
    (hp : progs[j]? = some p) (hs : ps[j]? = some st) :
    (runSchedule progs sh ps sched)[j]? = some (runAlone p sh st (sched.count j)) := by
  induction sched generalizing ps st with
  | nil => simpa [runSchedule, runAlone] using hs
  | cons i rest ih =>
    simp only [runSchedule]
    by_cases hij : i = j
    · subst hij
      simp only [hp, hs]
      have hlen : i < ps.length := by
        rcases List.getElem?_eq_some_iff.mp hs with ⟨h, _⟩; exact h
      have := ih (ps.set i (p.step sh st)) (p.step sh st) (by simp [hlen])
      rw [this]
      simp [runAlone]
    · have hcount : (i :: rest).count j = rest.count j := by simp [List.count_cons, hij]
      rw [hcount]
      split
      · rename_i q stq _ _
        exact ih _ st (by rw [List.getElem?_set_ne hij]; exact hs)
      · exact ih ps st hs

/-- **The premise, from the source**: no function of the library writes to a package-level
variable (assignment, inc/dec, address-of, delete, mutating method) — the regenerated list is
empty — and the package-level variables themselves are the reviewed ones. -/
theorem no_shared_writes : Gen.packageWrites = [] := by rfl
theorem package_vars_tie : Gen.packageVars = Gen.packageVarsExpected := by rfl

/-! non-vacuity: two counters incremented under an arbitrary interleaving -/
example : runSchedule [⟨fun sh p => p + sh⟩, ⟨fun sh p => p * sh⟩] 2 [0, 1] [0, 1, 1, 0, 1] = [4, 8] := by decide

end Distill.C12
