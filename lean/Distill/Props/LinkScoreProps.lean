/-
  The prev/next finder's decision about one anchor (Model/LinkScore.lean), shared by C16 and C17.
-/
import Distill.Proofs.LinkScore
import Distill.Proofs.Pagination
import Distill.Model.PageInfo
import Distill.Proofs.Scan
import Distill.Gen.Funcs
import Distill.Gen.Tables
namespace Distill.LinkScoreProps
open Distill LinkScore

/-- the expressions the model spells out are the ones in the source -/
theorem prevnext_regexps_tie :
    Gen.modelledRegexps.lookup "internal/pagination.rxNextLink" = some "(?i)(next|weiter|continue|>([^\\|]|$)|»([^\\|]|$))" ∧
    Gen.modelledRegexps.lookup "internal/pagination.rxPrevLink" = some "(?i)(prev|early|old|new|<|«)" ∧
    Gen.modelledRegexps.lookup "internal/pagination.rxExtraneous" = some "(?i)print|archive|comment|discuss|e[\\-]?mail|share|reply|all|login|sign|single|as one|article|post|篇" ∧
    Gen.modelledRegexps.lookup "internal/pagination.rxPagination" = some "(?i)pag(e|ing|inat)" ∧
    Gen.modelledRegexps.lookup "internal/pagination.rxLinkPagination" = some "(?i)p(a|g|ag)?(e|ing|ination)?(=|\\/)[0-9]{1,2}$" ∧
    Gen.modelledRegexps.lookup "internal/pagination.rxFirstLast" = some "(?i)(first|last)" ∧
    Gen.modelledRegexps.lookup "internal/pagination.rxNumberAtStart" = some "^\\d+" ∧
    Gen.modelledRegexps.lookup "internal/pagination.rxNumber" = some "\\d" := by
  refine ⟨?_, ?_, ?_, ?_, ?_, ?_, ?_, ?_⟩ <;> decide +kernel

/-- the two plain word lists are read from the patterns -/
theorem prevnext_word_lists_read :
    Cand.altWords (Cand.patternOf "internal/pagination.rxPositive") = some positiveWords ∧
    Cand.altWords (Cand.patternOf "internal/pagination.rxNegative") = some negativeWords := by
  constructor <;> decide +kernel

/-- `FindOutlink`, `getPageDiff` and the two case-insensitive string helpers as they stand -/
theorem prevnext_bodies_tie : Gen.prevNextBodies = Gen.prevNextBodiesExpected := by rfl

/-- **The score of an anchor that raises no text-driven adjustment** is the contribution of its
surroundings and URL shape, plus 50 for the label of the direction, plus the number bonus, plus 25 for
pointing exactly one page on (back). -/
theorem score_of_quiet_anchor (next : Bool) (F : Facts) (hp : passes next F = true) (hq : quiet next F = true) :
    verdict next F = .cand (ctx F + (if own next (dataOf F) then 50 else 0) + numBonus next F.text.toList + diffBonus next F) :=
  verdict_quiet next F hp hq

/-- **A labelled anchor to the neighbouring page beats every numbered anchor of its pager**, by at
least 41 points, and reaches the threshold of 50 when it lies below the folder URL — whatever the
surroundings and the URL family contribute, as long as they contribute the same to both. -/
theorem labelled_anchor_wins (next : Bool) (A B : Facts)
    (hpA : passes next A = true) (hqA : quiet next A = true)
    (hpB : passes next B = true) (hqB : quiet next B = true)
    (hctx : ctx A = ctx B)
    (hA : own next (dataOf A) = true) (hAn : numBonus next A.text.toList = 0) (hAd : diffBonus next A = 25)
    (hB : own next (dataOf B) = false) :
    ∃ sa sb, verdict next A = .cand sa ∧ verdict next B = .cand sb ∧ sa ≥ sb + 41 ∧ (A.inFolder = true → sa ≥ 50) :=
  labelled_beats_numbered next A B hpA hqA hpB hqB hctx hA hAn hAd hB

/-- `getPageDiff` slices both strings at `commonLen`, which never exceeds either length: the two slice
expressions of the function are in range for every pair of strings and every `skip` -/
theorem page_diff_slices_in_range (a b : List UInt8) (skip : Nat) :
    commonLen a b skip ≤ a.length ∧ commonLen a b skip ≤ b.length := by
  unfold commonLen
  simp only []
  split
  · rename_i i hi
    have := List.mem_of_find?_eq_some hi
    simp only [List.mem_range] at this
    omega
  · omega

/-- **What the prev/next finder returns, from the facts about the anchors**: the empty string, or the
cleaned href of an anchor of the page that could be made absolute, starts with the page's
scheme://host/ prefix (compared case-insensitively), is not the page itself, is not banned, and
scored at least 50 — for every list of anchors. -/
theorem find_outlink_provenance (next : Bool) (Fs : List Facts) :
    findOutlink next Fs = "" ∨
    ∃ F ∈ Fs, F.href = findOutlink next Fs ∧ F.absOK = true ∧ F.hasPrefix = true ∧ F.cleanOK = true ∧
      F.eqCurrent = false ∧ ∃ sc, verdict next F = .cand sc ∧ sc ≥ 50 := by
  unfold findOutlink
  simp only []
  rcases Pg.prevnext_is_candidate _ (Fs.filterMap fun F => match verdict next F with | .cand sc => some (⟨F.href, sc⟩ : Pg.Cand) | _ => none) with h | ⟨c, hc, he, hs, _⟩
  · exact Or.inl h
  · right
    simp only [List.mem_filterMap] at hc
    obtain ⟨F, hF, hv⟩ := hc
    split at hv
    · rename_i sc hvd
      simp only [Option.some.injEq] at hv
      subst hv
      have hp := verdict_cand_passes next F sc hvd
      simp only [passes, Bool.and_eq_true, Bool.or_eq_true, Bool.not_eq_eq_eq_not, Bool.not_true, Bool.or_eq_false_iff] at hp
      obtain ⟨⟨⟨⟨⟨⟨⟨h1, h2⟩, _⟩, h4⟩, h5⟩, _⟩, _⟩, _⟩ := hp
      exact ⟨F, hF, he, h1, h2, h4, h5.1, sc, hvd, hs⟩
    · cases hv

/-- **… and it is the best one**: no anchor that became a candidate with at least 50 points and whose
URL is not banned scored higher than the anchor the finder returns. -/
theorem find_outlink_is_best (next : Bool) (Fs : List Facts) (F : Facts) (sc : Int) (hF : F ∈ Fs)
    (hv : verdict next F = .cand sc) (hs : sc ≥ 50)
    (hnb : ∀ G ∈ Fs, verdict next G = .banned → G.href ≠ F.href) :
    ∃ G ∈ Fs, G.href = findOutlink next Fs ∧ ∃ sg, verdict next G = .cand sg ∧ sc ≤ sg := by
  unfold findOutlink
  simp only []
  have hm : (⟨F.href, sc⟩ : Pg.Cand) ∈ Fs.filterMap fun F => match verdict next F with | .cand sc => some (⟨F.href, sc⟩ : Pg.Cand) | _ => none := by
    simp only [List.mem_filterMap]
    exact ⟨F, hF, by rw [hv]⟩
  have hb : (⟨F.href, sc⟩ : Pg.Cand).href ∉ Fs.filterMap fun F => match verdict next F with | .banned => some F.href | _ => none := by
    intro hmem
    simp only [List.mem_filterMap] at hmem
    obtain ⟨G, hG, hg⟩ := hmem
    split at hg
    · rename_i hgb
      simp only [Option.some.injEq] at hg
      exact hnb G hG hgb hg
    · cases hg
  obtain ⟨c, hc, he, hle⟩ := Pg.prevnext_max _ _ ⟨F.href, sc⟩ hm hb hs
  simp only [List.mem_filterMap] at hc
  obtain ⟨G, hG, hgv⟩ := hc
  split at hgv
  · rename_i sg hgc
    simp only [Option.some.injEq] at hgv
    subst hgv
    exact ⟨G, hG, he, sg, hgc, hle⟩
  · cases hgv

/-! ### page-number links (`getPageInfoAndText`) -/

/-- `getPageInfoAndText` and the walk over the neighbouring leaves as they stand -/
theorem page_number_bodies_tie : Gen.pageNumberBodies = Gen.pageNumberBodiesExpected := by rfl

/-- **A page-number link is a position holder or a same-host URL**: whatever the anchor, the page info
the finder records has a number between 0 and 100 and its URL is either the empty / `javascript:`
href itself or the cleaned form of an href that parses and whose host is the page's host. -/
theorem page_info_provenance (text : String) (h : PageInfo.H) (n : Int) (u : String)
    (hp : PageInfo.pageInfo text h = some (n, u)) :
    0 ≤ n ∧ n ≤ 100 ∧
    ((u = h.resolved ∧ (h.resolved = "" ∨ PageInfo.isJs h.resolved = true)) ∨
     (u = h.cleaned ∧ h.requestOK = true ∧ h.sameHost = true ∧ h.parseOK = true)) := by
  unfold PageInfo.pageInfo at hp
  split at hp
  · cases hp
  · rename_i m _
    unfold PageInfo.maxNumForPageParam at hp
    split at hp
    · cases hp
    · rename_i hr
      simp only [Bool.or_eq_true, decide_eq_true_eq, not_or, Int.not_lt, Int.not_lt] at hr
      split at hp
      · rename_i hj
        simp only [Option.some.injEq, Prod.mk.injEq] at hp
        obtain ⟨rfl, rfl⟩ := hp
        refine ⟨hr.1, by omega, Or.inl ⟨rfl, ?_⟩⟩
        simp only [Bool.or_eq_true, beq_iff_eq] at hj
        exact hj
      · split at hp
        · cases hp
        · rename_i hs
          split at hp
          · cases hp
          · rename_i hq
            simp only [Option.some.injEq, Prod.mk.injEq] at hp
            obtain ⟨rfl, rfl⟩ := hp
            simp only [Bool.or_eq_true, Bool.not_eq_eq_eq_not, Bool.not_true, not_or, Bool.not_eq_false] at hs hq
            exact ⟨hr.1, by omega, Or.inr ⟨rfl, hs.1, hs.2, hq⟩⟩

/-- a link to another host is never a page-number link -/
theorem other_host_is_no_page_link (text : String) (h : PageInfo.H) (hne : h.resolved ≠ "")
    (hjs : PageInfo.isJs h.resolved = false) (hh : h.sameHost = false) : PageInfo.pageInfo text h = none := by
  unfold PageInfo.pageInfo
  split
  · rfl
  · split
    · rfl
    · have : (h.resolved == "") = false := by simpa using hne
      simp [this, hjs, hh]

example : PageInfo.pageInfo "[3]" ⟨"http://e.com/a?page=3#x", true, true, true, "http://e.com/a?page=3"⟩ = some (3, "http://e.com/a?page=3") := by
  decide +kernel
example : PageInfo.pageInfo "101" ⟨"http://e.com/a?page=101", true, true, true, "http://e.com/a?page=101"⟩ = none := by decide +kernel

/-! ### the DOM scan of the page-number algorithm (`Model/Scan.lean`) -/

/-- **Provenance through the DOM scan**: whatever the tree, every page info the scan hands to the
groups of adjacent numbers is the page info `getPageInfoAndText` gives for one of its anchors, or a
plain number without URL read from a text node.  (With `page_info_provenance` and the provenance
theorem of the detection, a NextPage / PrevPage of the page-number algorithm is the cleaned href of an
anchor on the page's host.) -/
theorem scan_provenance (A : Scan.A) (root : Node) (ops : List Pg.GOp) (h : Scan.scanOps A root = some ops) :
    ∀ o ∈ ops, Scan.OkOp A o := Scan.scanOps_provenance A root ops h

/-- non-vacuity: `<div><a>1</a> <b>2</b> <a>3</a></div>` with page infos for the two anchors -/
def exAtoms : Scan.A where
  pageInfo := fun i => if i == 1 then some (1, "u1") else if i == 6 then some (3, "u3") else none
  noWords := fun i => i == 3 || i == 5
def exTree : Node :=
  .elem 0 "div" [] [.elem 1 "a" [] [.text 2 "1"], .text 3 " ", .elem 4 "b" [] [.text 7 "2"], .text 5 " ", .elem 6 "a" [] [.text 8 "3"]]
example : (Scan.scanGroups exAtoms exTree).map (·.map fun g => (g.deltaSign, g.list.map fun p => (p.num, p.url))) =
    some [(1, [(1, "u1"), (2, ""), (3, "u3")])] := by decide +kernel

/-! non-vacuity: page 2 of `http://e.com/a?page=N` with anchors `Next` → page 3 and `4` → page 4
inside `<div class="pagination">` -/
def exNext : Facts := ⟨true, true, true, true, "http://e.com/a?page=3", false, false, true, "/a?page=3", "Next", "", "",
  [("pagination", ""), ("", ""), ("", "")], "http://e.com/a?page=2", 13⟩
def exFour : Facts := ⟨true, true, true, true, "http://e.com/a?page=4", false, false, true, "/a?page=4", "4", "", "",
  [("pagination", ""), ("", ""), ("", "")], "http://e.com/a?page=2", 13⟩

example : passes true exNext = true ∧ quiet true exNext = true ∧ passes true exFour = true ∧ quiet true exFour = true ∧
    ctx exNext = ctx exFour ∧ own true (dataOf exNext) = true ∧ numBonus true exNext.text.toList = 0 ∧
    diffBonus true exNext = 25 ∧ own true (dataOf exFour) = false := by decide +kernel
example : verdict true exNext = .cand 125 ∧ verdict true exFour = .cand 56 := by decide +kernel
example : verdict false exNext = .cand (-150) := by decide +kernel
example : pageDiff "http://e.com/a?page=2".toUTF8.toList "http://e.com/a?page=3".toUTF8.toList 13 = some 1 := by decide +kernel

/-- the whole finder on that pager: links `1`, `3`, `4` and `Next` → page 3 seen from page 2 -/
def exOne : Facts := ⟨true, true, true, true, "http://e.com/a?page=1", false, false, true, "/a?page=1", "1", "", "",
  [("pagination", ""), ("", ""), ("", "")], "http://e.com/a?page=2", 13⟩
def exThree : Facts := ⟨true, true, true, true, "http://e.com/a?page=3", false, false, true, "/a?page=3", "3", "", "",
  [("pagination", ""), ("", ""), ("", "")], "http://e.com/a?page=2", 13⟩
example : findOutlink true [exOne, exThree, exFour, exNext] = "http://e.com/a?page=3" ∧
    findOutlink false [exOne, exThree, exFour, exNext] = "http://e.com/a?page=1" := by decide +kernel

end Distill.LinkScoreProps
