/-
  C03 — A simple paragraph is kept or dropped as a whole.
-/
import Distill.Props.DomHelpers
import Distill.Proofs.SimplePara
import Distill.Props.FiltersProps
import Distill.Model.TextDoc
namespace Distill.C03
open Distill

/-- **A simple paragraph is never cut in the middle.**  For every converter mode, ancestors,
atoms that do not match attribute-free elements (`PlainAtoms`; checked against the real
regexps on every run), and every *reachable* builder state: while the paragraph's events are
processed, every Text element that is emitted either ends before the paragraph's first node or
contains all of the paragraph's nodes, and the pending window does not start inside the
paragraph.  So all of the paragraph's nodes end up in the window of one Text element. -/
theorem simple_para_one_text (cfg : CCfg) (A : CAtoms) (anc : List String) (hp : Bool)
    (pid : Nat) (pattrs : List Attr) (ks : List Node) (before : List BEv)
    (hk : plainInlineL ks = true) (hA : PlainAtoms A (allIdsL ks)) :
    let s := brun {} before
    let evs := convertNode cfg A anc hp (.elem pid "p" pattrs ks)
    let a := s.tb.nodes.length
    let s' := brun s evs
    s'.tb.nodes = s.tb.nodes ++ nodeIds evs ∧
    (∃ new, s'.out = s.out ++ new ∧
      ∀ e ∈ new, match e with
        | .text t => t.stop ≤ a ∨ (t.start ≤ a ∧ t.stop = a + (nodeIds evs).length)
        | _ => False) ∧
    (s'.tb.firstNode ≤ a ∨ s'.tb.firstNode = a + (nodeIds evs).length) :=
  simple_para_not_cut_reachable cfg A anc hp pid pattrs ks before hk hA

/-- **One flag per Text.**  Whatever the classifier decides, it decides per block, and
`ApplyToModel` gives every Text element of a block the block's flag and title label: two Text
elements of the same block always agree. -/
theorem flag_per_block (blocks : List VBlock) (b : VBlock) (i j : Nat)
    (hfirst : blocks.find? (fun b => b.members.contains i) = some b)
    (hsame : blocks.find? (fun b => b.members.contains j) = some b) :
    flagOf blocks i = flagOf blocks j := by
  unfold flagOf; rw [hfirst, hsame]

/-- the iteration over children reads the next sibling before visiting (the repaired walker):
regenerated statement list of `domutil.WalkNodes` -/
theorem walker_tie : Gen.walkNodesBody =
    ["if root == nil { return }",
     "visitChildren := false",
     "if fnVisit != nil { visitChildren = fnVisit(root) }",
     "if !visitChildren { return }",
     "for child := root.FirstChild; child != nil; { next := child.NextSibling WalkNodes(child, fnVisit, fnExit) child = next }",
     "if fnExit != nil { fnExit(root) }"] := by rfl

/-- `ApplyToModel` as it stands in the source: nothing for non-content blocks; otherwise every
Text of the block gets the flag, and TITLE if the block has it -/
theorem apply_to_model_tie : Gen.applyToModelBody =
    ["if !tb.isContent { return }",
     "for _, wt := range tb.TextElements { wt.SetIsContent(true) if tb.HasLabel(label.Title) { wt.AddLabel(label.Title) } }"] := by rfl

end Distill.C03
