/- C17: the 77 cells of URL family 4 (kernel evaluation of the model on the implementation's
page-pattern answers); one file per family so the families are checked in parallel. -/
import Distill.Props.C17Defs
namespace Distill.C17
open Distill.Gen

theorem fam4_cells : ∀ c ∈ allCells, cellOk fam4 c.1 c.2 = true := by
  decide +kernel

theorem fam4_bare : ∀ n ∈ allN, bareOk fam4 n = true := by
  decide +kernel

end Distill.C17
