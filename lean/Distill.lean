import Distill.Model.Dom
import Distill.Model.Elem
import Distill.Model.DocFilters
import Distill.Proofs.DocFilters
import Distill.Proofs.Retainer
import Distill.Props.C08
import Distill.Driver.Slices
